"""C13 bounded stand-in: arithmetic blocks and bit helpers vs integer arithmetic."""
import itertools

from vlib import circ, gen, oracle, spec
import circuitgraph as cg

RULE = ("adder widths 1..5 exhaustively over all input vectors and 4 carry option pairs, widths to 64 on random "
        "vectors; mux widths 1..9 exhaustive (all data/select vectors for w<=4, all selects x random data beyond), "
        "random to 33; popcount widths 1..10 exhaustive, random to 40; half/full adder exhaustive; clog2 for all "
        "n<=4100 and 2^k-1,2^k,2^k+1 for k<=80; int_to_bin/bin_to_int for all i<2^w, w<=10, both endiannesses, and "
        "random (i,w) to w=70; non-trivial = every case")
BOUND = "exhaustive widths: adder<=5(quick 4), mux<=9, popcount<=10(quick 8); random widths <=64; clog2 arguments < 2^81"


def cases(tier, seed):
    rng = gen.rng_for(seed, "c13")
    yield {"f": "half_adder"}
    yield {"f": "full_adder"}
    # a caller edits a block it got earlier; blocks generated afterwards must be unaffected
    yield {"f": "half_adder", "dirty": True}
    yield {"f": "full_adder", "dirty": True}
    yield {"f": "adder", "w": 2, "ci": True, "co": True, "mode": "all", "dirty": True}
    yield {"f": "popcount", "w": 3, "mode": "all", "dirty": True}
    for w in range(1, 5 if tier == "quick" else 6):
        for ci in (False, True):
            for co in (False, True):
                yield {"f": "adder", "w": w, "ci": ci, "co": co, "mode": "all"}
    for w in (6, 8, 13, 16, 31, 32, 64) if tier != "quick" else (7, 16, 33):
        for ci in (False, True):
            yield {"f": "adder", "w": w, "ci": ci, "co": True, "mode": "random", "n": 40, "salt": w}
    for w in range(1, 10):
        yield {"f": "mux", "w": w, "mode": "all" if w <= 4 else "selects", "salt": w}
    for w in (12, 17, 33) if tier != "quick" else (11,):
        yield {"f": "mux", "w": w, "mode": "selects", "salt": w}
    for w in range(1, 9 if tier == "quick" else 11):
        yield {"f": "popcount", "w": w, "mode": "all"}
    for w in (12, 16, 23, 40) if tier != "quick" else (13,):
        yield {"f": "popcount", "w": w, "mode": "random", "n": 30, "salt": w}
    yield {"f": "clog2", "lo": 1, "hi": 4100}
    yield {"f": "clog2_pow", "kmax": 80}
    yield {"f": "clog2_bad"}
    for w in range(0, 11):
        yield {"f": "bits", "w": w, "mode": "all"}
    yield {"f": "bits", "w": 70, "mode": "random", "n": 200, "salt": 1}


def _sim(c, assign):
    return oracle.simulate(c, assign)


def _val(v, prefix, w):
    return sum((1 << i) for i in range(w) if v[f"{prefix}_{i}"])


def run_case(case):
    f = case["f"]
    fails = []
    rng = gen.rng_for(case.get("salt", 0), "c13case", f)

    if case.get("dirty"):
        for mk in (cg.logic.half_adder, cg.logic.full_adder, lambda: cg.logic.adder(2, True, True)):
            blk = mk()
            victim = next((n for n in sorted(blk.graph) if blk.graph.nodes[n]["type"] in ("and", "xor", "or")), None)
            if victim is not None:
                blk.set_type(victim, "nor")
            blk.add("zz_extra", "input")
            blk.set_output("zz_extra")

    def lintchk(c, what):
        lv = spec.lint_violations(c)
        if lv:
            fails.append({"kind": f"{f}-not-lintclean", "msg": f"{what}: {lv[:3]}"})

    if f == "half_adder":
        c = cg.logic.half_adder()
        lintchk(c, f)
        for x, y in itertools.product((0, 1), repeat=2):
            v = _sim(c, {"x": x, "y": y})
            if int(v["s"]) + 2 * int(v["c"]) != x + y:
                fails.append({"kind": "half_adder-wrong", "msg": f"x={x} y={y} s={v['s']} c={v['c']}"})
        if c.outputs() != {"s", "c"} or c.inputs() != {"x", "y"}:
            fails.append({"kind": "half_adder-io", "msg": ""})
    elif f == "full_adder":
        c = cg.logic.full_adder()
        lintchk(c, f)
        for x, y, z in itertools.product((0, 1), repeat=3):
            v = _sim(c, {"x": x, "y": y, "cin": z})
            if int(v["s"]) + 2 * int(v["cout"]) != x + y + z:
                fails.append({"kind": "full_adder-wrong", "msg": f"x={x} y={y} cin={z}"})
        if c.outputs() != {"s", "cout"} or c.inputs() != {"x", "y", "cin"}:
            fails.append({"kind": "full_adder-io", "msg": ""})
    elif f == "adder":
        w, ci, co = case["w"], case["ci"], case["co"]
        c = cg.logic.adder(w, carry_in=ci, carry_out=co)
        lintchk(c, f"adder({w},{ci},{co})")
        want_in = {f"a_{i}" for i in range(w)} | {f"b_{i}" for i in range(w)} | ({"cin"} if ci else set())
        want_out = {f"out_{i}" for i in range(w)} | ({"cout"} if co else set())
        if c.inputs() != want_in or c.outputs() != want_out:
            fails.append({"kind": "adder-io", "msg": f"{sorted(c.inputs())} {sorted(c.outputs())}"})
        if case["mode"] == "all":
            vecs = itertools.product(range(1 << w), range(1 << w), (0, 1) if ci else (0,))
        else:
            vecs = [(rng.getrandbits(w), rng.getrandbits(w), rng.getrandbits(1) if ci else 0) for _ in range(case["n"])]
            vecs += [((1 << w) - 1, 1, 0), ((1 << w) - 1, (1 << w) - 1, 1 if ci else 0)]
        for a, b, z in vecs:
            asg = {f"a_{i}": bool(a >> i & 1) for i in range(w)}
            asg.update({f"b_{i}": bool(b >> i & 1) for i in range(w)})
            if ci:
                asg["cin"] = bool(z)
            v = _sim(c, asg)
            got = _val(v, "out", w)
            tot = a + b + z
            if got != tot % (1 << w) or (co and v["cout"] != bool(tot >> w)):
                fails.append({"kind": "adder-wrong", "msg": f"w={w} a={a} b={b} cin={z}: out={got} cout={v.get('cout')}"})
                break
    elif f == "mux":
        w = case["w"]
        c = cg.logic.mux(w)
        lintchk(c, f"mux({w})")
        ns = cg.utils.clog2(w)
        if c.inputs() != {f"in_{i}" for i in range(w)} | {f"sel_{i}" for i in range(ns)} or c.outputs() != {"out"}:
            fails.append({"kind": "mux-io", "msg": f"{sorted(c.inputs())} {sorted(c.outputs())}"})
        datas = range(1 << w) if case["mode"] == "all" else [rng.getrandbits(w) for _ in range(6)] + [(1 << w) - 1, 0]
        for d in datas:
            for s in range(1 << ns):
                asg = {f"in_{i}": bool(d >> i & 1) for i in range(w)}
                asg.update({f"sel_{i}": bool(s >> i & 1) for i in range(ns)})
                v = _sim(c, asg)
                want = bool(d >> s & 1) if s < w else False
                if v["out"] != want:
                    fails.append({"kind": "mux-wrong", "msg": f"w={w} data={d:b} sel={s}: out={v['out']} expected {want}"})
                    break
            if fails:
                break
    elif f == "popcount":
        w = case["w"]
        c = cg.logic.popcount(w)
        lintchk(c, f"popcount({w})")
        nout = len(c.outputs())
        if c.inputs() != {f"in_{i}" for i in range(w)} or c.outputs() != {f"out_{i}" for i in range(nout)}:
            fails.append({"kind": "popcount-io", "msg": f"{sorted(c.inputs())} {sorted(c.outputs())}"})
        if (1 << nout) <= w:
            fails.append({"kind": "popcount-too-few-outputs", "msg": f"w={w} outputs={nout}"})
        vecs = range(1 << w) if case["mode"] == "all" else [rng.getrandbits(w) for _ in range(case["n"])] + [(1 << w) - 1, 0]
        for d in vecs:
            v = _sim(c, {f"in_{i}": bool(d >> i & 1) for i in range(w)})
            got = _val(v, "out", nout)
            if got != bin(d).count("1"):
                fails.append({"kind": "popcount-wrong", "msg": f"w={w} in={d:b}: out={got}"})
                break
    elif f in ("clog2", "clog2_pow"):
        if f == "clog2":
            args = range(case["lo"], case["hi"] + 1)
        else:
            args = sorted({x for k in range(0, case["kmax"] + 1) for x in ((1 << k) - 1, 1 << k, (1 << k) + 1) if x >= 1})
        for n in args:
            r = cg.utils.clog2(n)
            want = (n - 1).bit_length()
            if r != want:
                fails.append({"kind": "clog2-wrong", "msg": f"clog2({n}) = {r}, expected {want}"})
                break
    elif f == "clog2_bad":
        for n in (0, -1, -7):
            try:
                r = cg.utils.clog2(n)
                fails.append({"kind": "clog2-accepts-nonpositive", "msg": f"clog2({n}) = {r}"})
            except ValueError:
                pass
    elif f == "bits":
        w = case["w"]
        if case["mode"] == "all":
            pairs = [(i, w) for i in range(1 << w)]
        else:
            pairs = []
            for _ in range(case["n"]):
                ww = rng.randint(1, w)
                pairs.append((rng.getrandbits(ww), ww))
        for i, ww in pairs:
            for lend in (False, True):
                b = cg.utils.int_to_bin(i, ww, lend)
                if len(b) != ww and not (ww == 0 and i == 0):
                    fails.append({"kind": "int_to_bin-width", "msg": f"int_to_bin({i},{ww},{lend}) has {len(b)} bits"})
                    break
                bits = list(b) if lend else list(reversed(b))
                if sum((1 << k) for k, x in enumerate(bits) if x) != i or not all(isinstance(x, bool) for x in b):
                    fails.append({"kind": "int_to_bin-value", "msg": f"int_to_bin({i},{ww},{lend}) = {b}"})
                    break
                if ww > 0 and cg.utils.bin_to_int(b, lend) != i:
                    fails.append({"kind": "bits-roundtrip", "msg": f"i={i} w={ww} lend={lend}: {cg.utils.bin_to_int(b, lend)}"})
                    break
            if fails:
                break
    return {"nontrivial": True, "failures": fails}
