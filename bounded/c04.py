"""C04 bounded stand-in: contract of tx.miter on the real function."""
import copy

from vlib import circ, gen, oracle, spec
import circuitgraph as cg

RULE = ("pairs (c0, c1) with c1 in {omitted, equal copy, one-gate-type mutant, restructured (extra buffer), "
        "independent circuit over the same io names} for every 2-input 1..2-gate circuit and seeded random "
        "lint-clean blackbox-free circuits (constants, outputs that are inputs); startpoints in {default, all "
        "shared, one, random subset}, endpoints in {default, one (also an input), random subset}; every "
        "consistent valuation of the miter is checked; non-trivial = at least one compared endpoint is a gate"
        "; plus: revisions in which a name that is a primary input of one circuit is a multi-input gate of the other"
        "; histories: the same argument objects mitered before, also as an earlier revision edited in place since (set_type and back)")
BOUND = "circuits <= 9 nodes each, <= 5 startpoints each; all valuations; 4/16 hash seeds"


def _mutant(rng, cd):
    cd = copy.deepcopy(cd)
    gates = [r for r in cd["nodes"] if r[1] in gen.MULTI]
    if gates:
        r = rng.choice(gates)
        r[1] = rng.choice([t for t in gen.MULTI if t != r[1]])
    return cd


def _restructured(cd):
    cd = copy.deepcopy(cd)
    # insert a buffer on the first edge into a multi-input gate
    for i, (u, v) in enumerate(cd["edges"]):
        t = [r[1] for r in cd["nodes"] if r[0] == v][0]
        if t in gen.MULTI:
            cd["nodes"].append(["rs_buf", "buf", False])
            cd["edges"][i] = [u, "rs_buf"]
            cd["edges"].append(["rs_buf", v])
            break
    return cd


def _name_coincidence(rng, cd):
    """a revision in which a name that is a primary input of cd is a multi-input GATE (fed by a fresh input and
    another input): the name is shared but it is a startpoint of only one of the two circuits"""
    ins = [r[0] for r in cd["nodes"] if r[1] == "input"]
    if len(ins) < 2 or any(r[0] == "nx_in" for r in cd["nodes"]):
        return None
    x = rng.choice(ins)
    y = rng.choice([i for i in ins if i != x])
    nodes = [[r[0], rng.choice(["and", "or", "xor"]), r[2]] if r[0] == x else list(r) for r in cd["nodes"]] + [["nx_in", "input", False]]
    edges = [list(e) for e in cd["edges"]] + [["nx_in", x], [y, x]]
    return {"name": cd["name"], "nodes": nodes, "edges": edges, "bbs": {}}


def _pairs(rng, cd):
    yield cd, None
    yield cd, cd
    yield cd, _mutant(rng, cd)
    yield cd, _restructured(cd)
    nc = _name_coincidence(rng, cd)
    if nc is not None:
        yield cd, nc
        yield nc, cd


def _choices(rng, cd0, cd1):
    c1 = cd1 or cd0
    n0 = {r[0]: r for r in cd0["nodes"]}
    n1 = {r[0]: r for r in c1["nodes"]}
    sp = sorted(n for n in n0 if n in n1 and n0[n][1] == "input" and n1[n][1] == "input")
    shared = sorted(n for n in n0 if n in n1)
    outs = sorted(n for n in shared if n0[n][2] and n1[n][2])
    sps = [None, sp]
    if len(sp) > 1:
        sps.append([rng.choice(sp)])
        sps.append(sorted(rng.sample(sp, rng.randint(1, len(sp) - 1))))
    eps = [None]
    if shared:
        eps.append([rng.choice(shared)])
        eps.append(sorted(rng.sample(shared, rng.randint(1, min(3, len(shared))))))
        ins = [n for n in sp]
        if ins:
            eps.append([rng.choice(ins)])
    if outs:
        eps.append([outs[0]])
    for s in sps:
        if s is not None and not s:
            continue
        for e in eps:
            yield s, e


def cases(tier, seed):
    rng = gen.rng_for(seed, "c04")
    for n_g in (1, 2):
        for i, cd in enumerate(gen.enum_circuits(2, n_g, outputs="each")):
            if n_g == 2 and i % (40 if tier == "quick" else 4):
                continue
            for c0, c1 in _pairs(rng, cd):
                for s, e in _choices(rng, c0, c1):
                    if rng.random() < (0.35 if tier == "quick" else 1.0):
                        yield {"c0": c0, "c1": c1, "sp": s, "ep": e}
    # many compared endpoints: w inputs buffered to w outputs against a revision that inverts exactly one of them
    for w in (9, 10, 12):
        for bad in (0, w - 1, w // 2):
            ins = [[f"i{k}", "input", False] for k in range(w)]
            c0_ = {"name": "w0", "nodes": ins + [[f"o{k}", "buf", True] for k in range(w)], "edges": [[f"i{k}", f"o{k}"] for k in range(w)], "bbs": {}}
            c1_ = {"name": "w1", "nodes": ins + [[f"o{k}", "not" if k == bad else "buf", True] for k in range(w)], "edges": [[f"i{k}", f"o{k}"] for k in range(w)], "bbs": {}}
            yield {"c0": c0_, "c1": c1_, "sp": None, "ep": None, "structure_only": True}
    n_rand = 120 if tier == "quick" else 2500
    for i in range(n_rand):
        cd = gen.random_circuit(rng, n_in=rng.randint(1, 4), n_gates=rng.randint(1, 5), max_fanin=3, p_const=0.3,
                                p_out=0.4, allow_input_output=rng.random() < 0.3,
                                names=(gen.NASTY_NAMES if rng.random() < 0.2 else None))
        other = gen.random_circuit(rng, n_in=len([r for r in cd["nodes"] if r[1] == "input"]),
                                   n_gates=rng.randint(1, 5), max_fanin=3, p_out=0.5)
        prs = list(_pairs(rng, cd))
        if not any(r[0] in gen.NASTY_NAMES for r in cd["nodes"]):
            prs.append((cd, other))
        for c0, c1 in prs:
            ch = list(_choices(rng, c0, c1))
            for s, e in rng.sample(ch, min(3, len(ch))):
                yield {"c0": c0, "c1": c1, "sp": s, "ep": e, "twice": rng.random() < 0.3, "edited": rng.random() < 0.3}


def run_case(case):
    c0 = circ.build(case["c0"])
    c1 = circ.build(case["c1"]) if case["c1"] is not None else None
    if not spec.lintclean(c0) or (c1 is not None and not spec.lintclean(c1)):
        return {"nontrivial": False, "failures": []}
    cc1 = c1 if c1 is not None else c0
    S, E = case["sp"], case["ep"]
    sp_shared = set(oracle.startpoints(c0)) & set(oracle.startpoints(cc1))
    S_eff = set(S) if S else sp_shared
    E_eff = set(E) if E else ({n for n in c0.graph if c0.graph.nodes[n].get("output")} &
                              {n for n in cc1.graph if cc1.graph.nodes[n].get("output")})
    if not E_eff or not S_eff:
        return {"nontrivial": False, "failures": []}
    snaps = (circ.snapshot(c0), circ.snapshot(cc1))
    fails = []
    new_names = set(S_eff) | {"sat"} | {f"dif_{e}" for e in E_eff}
    pref = {f"c0_{n}" for n in c0.graph} | {f"c1_{n}" for n in cc1.graph}
    clash = bool(new_names & pref) or len({f"c0_{n}" for n in c0.graph} & {f"c1_{n}" for n in cc1.graph}) > 0 \
        or "sat" in S_eff or bool({f"dif_{e}" for e in E_eff} & (S_eff | {"sat"}))
    S_arg, E_arg = (set(S) if S else None), (set(E) if E else None)
    try:
        if case.get("edited"):
            # the caller mitered an earlier revision of the same circuit object, then edited it in place (same node and edge counts)
            tgt = cc1
            gs = sorted(n for n in tgt.graph if tgt.graph.nodes[n].get("type") in gen.MULTI)
            if gs:
                g_ = gs[len(gs) // 2]
                t_ = tgt.graph.nodes[g_]["type"]
                tgt.set_type(g_, gen.MULTI[(gen.MULTI.index(t_) + 1) % len(gen.MULTI)])
                try:
                    cg.tx.miter(c0, c1, startpoints=S_arg, endpoints=E_arg)
                except ValueError:
                    pass
                finally:
                    tgt.set_type(g_, t_)
        if case.get("twice"):
            # an earlier call with the very same argument objects must not influence the one under test
            cg.tx.miter(c0, c1, startpoints=S_arg, endpoints=E_arg)
        m = cg.tx.miter(c0, c1, startpoints=S_arg, endpoints=E_arg)
    except ValueError as ex:
        if clash:
            return {"nontrivial": False, "failures": []}
        return {"nontrivial": True, "failures": [{"kind": "miter-unexpected-ValueError", "msg": repr(ex)}]}
    if set(m.inputs()) != S_eff:
        fails.append({"kind": "miter-inputs", "msg": f"inputs {sorted(m.inputs())} expected {sorted(S_eff)}"})
    if set(m.outputs()) != {"sat"}:
        fails.append({"kind": "miter-outputs", "msg": f"outputs {sorted(m.outputs())}"})
    if case.get("structure_only"):
        # wide case: simulate the miter on the all-zero and a few random input vectors instead of enumerating valuations
        import random as _r
        rr = _r.Random(7)
        ins_m = sorted(m.inputs())
        for t in range(6):
            a = {i: (rr.random() < 0.5 if t else False) for i in ins_m}
            v = oracle.simulate(m, a)
            v0 = oracle.simulate(c0, {i: a[i] for i in c0.inputs()})
            v1 = oracle.simulate(cc1, {i: a[i] for i in cc1.inputs()})
            want = any(v0[e] != v1[e] for e in E_eff)
            if v["sat"] != want:
                fails.append({"kind": "miter-sat-wrong", "msg": f"{len(E_eff)} endpoints: sat={v['sat']} but endpoints differ={want} under {a}"})
                break
        return {"nontrivial": True, "failures": fails}
    try:
        vals = list(oracle.consistent_valuations(m))
    except oracle.OracleError:
        return {"nontrivial": False, "failures": fails}
    any_sat = False
    for v in vals:
        if "sat" not in v:
            fails.append({"kind": "miter-no-sat-node", "msg": ""})
            break
        v0 = {n: v.get(f"c0_{n}") for n in c0.graph}
        v1 = {n: v.get(f"c1_{n}") for n in cc1.graph}
        if None in v0.values() or None in v1.values():
            fails.append({"kind": "miter-copy-incomplete", "msg": "a node of c0/c1 has no prefixed copy"})
            break
        if not oracle.is_consistent(c0, v0) or not oracle.is_consistent(cc1, v1):
            fails.append({"kind": "miter-copy-not-faithful", "msg": f"copy valuation inconsistent with original: {v}"})
            break
        if any(not (v0[s] == v1[s] == v[s]) for s in S_eff):
            fails.append({"kind": "miter-startpoint-not-tied", "msg": f"{v}"})
            break
        want = any(v0[e] != v1[e] for e in E_eff)
        any_sat |= want
        if v["sat"] != want:
            fails.append({"kind": "miter-sat-wrong", "msg": f"sat={v['sat']} but endpoints differ={want}; E={sorted(E_eff)} S={sorted(S_eff)} v={v}"})
            break
    # completeness: every pair of consistent valuations agreeing on S appears
    if not fails:
        n_pairs = 0
        vals1 = list(oracle.consistent_valuations(cc1))
        for a in oracle.consistent_valuations(c0):
            for b in vals1:
                if all(a[s] == b[s] for s in S_eff):
                    n_pairs += 1
        got = {tuple(sorted((k, x) for k, x in v.items() if k.startswith(("c0_", "c1_")))) for v in vals}
        if len(got) != n_pairs:
            fails.append({"kind": "miter-valuation-space", "msg": f"{len(got)} copy-valuations in miter, {n_pairs} expected pairs"})
    if not fails:
        try:
            res = cg.sat.solve(m, {"sat": True})
        except Exception as ex:  # the contract of solve has no exceptional exit here
            res = None
            fails.append({"kind": "miter-solve-raises", "msg": f"solve(miter, sat=1) raised {ex!r} (S={sorted(S_eff)})"})
        if res is not None and (res is False) != (not any_sat):
            fails.append({"kind": "miter-solve-disagrees", "msg": f"solve={'False' if res is False else 'sat'} oracle any_sat={any_sat}"})
    if (circ.snapshot(c0), circ.snapshot(cc1)) != snaps:
        fails.append({"kind": "argument-mutated", "msg": "miter changed an argument"})
    gate_ep = any(c0.graph.nodes[e].get("type") not in ("input",) for e in E_eff if e in c0.graph)
    return {"nontrivial": gate_ep, "failures": fails}
