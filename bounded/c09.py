"""C09 bounded stand-in: unroll / sequential_unroll vs step-by-step execution."""
import itertools

from vlib import circ, gen, oracle, spec, sem
import circuitgraph as cg

RULE = ("unroll: seeded random lint-clean acyclic blackbox-free circuits (<=4 inputs) x every injective pairing of up "
        "to 2 outputs with inputs (incl. pairings whose key order and value order differ) x n in 1..4; "
        "sequential_unroll: random circuits with 1..3 flops of one blackbox type (pins clk,d,q or clk,rst|cdn|rq,d,q,qn; ignore_pins as a list or a bare string) x "
        "add_flop_outputs x initial_values in {None,'0','1',per-flop dict} x remove_unloaded x ignore_pins; all "
        "initial states and all input sequences are simulated; non-trivial = n >= 2 and a state pair exists"
        "; plus: a node that is input and output paired with itself, ordinary io named like flop pins (sum_q, in_d), names derived from the library's own naming templates, shuffled node insertion order")
BOUND = "circuits <= 12 nodes; n <= 4 (free signals of the unrolled circuit <= 12); 4/16 hash seeds"


def cases(tier, seed):
    rng = gen.rng_for(seed, "c09")
    for i in range(120 if tier == "quick" else 2500):
        cd = gen.random_circuit(rng, n_in=rng.randint(1, 3), n_gates=rng.randint(1, 5), max_fanin=3, p_const=0.2,
                                p_out=0.5, allow_input_output=rng.random() < 0.3)
        if rng.random() < 0.25:
            cd = gen.adversarial_rename(cd, rng)  # names the transform itself would derive from other nodes
        if rng.random() < 0.3:
            cd = gen.shuffle_nodes(cd, rng)  # node insertion order decides iteration order inside the library
        ins = [r[0] for r in cd["nodes"] if r[1] == "input"]
        outs = [r[0] for r in cd["nodes"] if r[2]]
        pairings = [{}]
        for k in outs:
            for v in ins:
                pairings.append({k: v})   # k == v: a node that is input and output, paired with itself, holds its value
        if len(outs) >= 2 and len(ins) >= 2:
            for ks in itertools.permutations(outs, 2):
                for vs in itertools.permutations(ins, 2):
                    if not set(ks) & set(vs):
                        pairings.append(dict(zip(ks, vs)))
        rng.shuffle(pairings)
        for st in pairings[: (3 if tier == "quick" else 8)]:
            n = rng.randint(1, 4)
            if (len(ins) - len(st)) * n + len(st) > 10:
                n = 1
            yield {"f": "unroll", "c": cd, "n": n, "state_io": st}
    for i in range(150 if tier == "quick" else 3000):
        wide = rng.random() < 0.4
        nff = rng.randint(1, 3)
        rp = rng.choice(["rst", "rst", "cdn", "rq"])   # reset pin names that contain the d / q port names as substrings
        cd = _seq_circuit(rng, nff, wide, rp)
        iv = rng.choice([None, "0", "1", "dict"])
        if iv == "dict":
            iv = {f"ff{k}": rng.choice(["0", "1"]) for k in range(nff) if rng.random() < 0.7}
        yield {"f": "sequential_unroll", "c": cd, "n": rng.randint(1, 3), "afo": rng.random() < 0.5, "iv": iv,
               "ru": rng.random() < 0.6, "ignore": (rng.choice([[rp], rp]) if wide and rng.random() < 0.5 else None), "wide": wide}


def _seq_circuit(rng, nff, wide, rp="rst"):
    pins_in = ["clk", rp, "d"] if wide else ["clk", "d"]
    pins_out = ["q", "qn"] if wide else ["q"]
    nodes = [["clk", "input", False]]
    edges = []
    bbs = {}
    n_in = rng.randint(1, 2)
    avail = []
    for k in range(n_in):
        nodes.append([f"i{k}", "input", rng.random() < 0.15])
        avail.append(f"i{k}")
    if wide:
        nodes.append([rp, "input", False])
    for k in range(nff):
        inst = f"ff{k}"
        bbs[inst] = ["dff", pins_in, pins_out]
        for p in pins_in:
            nodes.append([f"{inst}.{p}", "bb_input", False])
        for p in pins_out:
            nodes.append([f"{inst}.{p}", "bb_output", False])
        nodes.append([f"q{k}", "buf", rng.random() < 0.3])
        edges.append([f"{inst}.q", f"q{k}"])
        edges.append(["clk", f"{inst}.clk"])
        if wide:
            edges.append([rp, f"{inst}.{rp}"])
        avail.append(f"q{k}")
    gates = []
    for k in range(rng.randint(1, 4)):
        t = rng.choice(gen.GATES)
        fis = [rng.choice(avail)] if t in gen.SINGLE else rng.sample(avail, rng.randint(1, min(3, len(avail))))
        nodes.append([f"g{k}", t, rng.random() < 0.4])
        edges += [[p, f"g{k}"] for p in fis]
        avail.append(f"g{k}")
        gates.append(f"g{k}")
    for k in range(nff):
        edges.append([rng.choice(avail), f"ff{k}.d"])
    if wide and gates and rng.random() < 0.4:
        # the reset NET (named exactly like the pin it feeds) is also used by ordinary logic
        nodes.append(["grst", "or", True])
        edges += [[rp, "grst"], [gates[0], "grst"]]
    if not any(r[2] for r in nodes):
        nodes[-1][2] = True
    if rng.random() < 0.3:
        # ordinary io whose names end like a flop pin (sum_q, ext_d): they are not state
        extra = rng.choice(["sum_q", "ext_q", "in_d", "x_q"])
        if rng.random() < 0.5:
            nodes.append([extra, "input", rng.random() < 0.5])
            if gates:
                nodes.append(["gx", "and", True])
                edges += [[extra, "gx"], [gates[0], "gx"]]
        else:
            nodes.append([extra, "buf", True])
            edges.append([rng.choice(avail), extra])
    return {"name": "seq", "nodes": nodes, "edges": edges, "bbs": bbs}


def _run_unroll(case):
    c = circ.build(case["c"])
    if not spec.lintclean(c) or c.blackboxes or not sem.is_dag(c):
        return {"nontrivial": False, "failures": []}
    n, st = case["n"], case["state_io"]
    fails = []
    snap = circ.snapshot(c)
    res, bad = gen.guarded("unroll", lambda: cg.tx.unroll(c, n, dict(st)), list(c.graph.nodes))
    if bad == "skip":
        return {"nontrivial": False, "failures": []}
    if bad:
        return {"nontrivial": True, "failures": [bad]}
    uc, io_map = res
    ins = sorted(c.inputs())
    outs = sorted(c.outputs())
    state_in = set(st.values())
    if set(io_map) != set(ins) | set(outs) or any(len(v) != n for v in io_map.values()):
        fails.append({"kind": "unroll-io_map-shape", "msg": str(io_map)})
        return {"nontrivial": True, "failures": fails}
    want_free = {io_map[v][0] for v in state_in} | {io_map[i][t] for i in ins if i not in state_in for t in range(n)}
    free = set(oracle.free_nodes(uc))
    if free != want_free or set(uc.inputs()) != want_free:
        fails.append({"kind": "unroll-free-inputs", "msg": f"free {sorted(free)} inputs {sorted(uc.inputs())} expected {sorted(want_free)}"})
        return {"nontrivial": True, "failures": fails}
    want_out = {io_map[o][t] for o in outs for t in range(n)}
    if set(uc.outputs()) != want_out:
        fails.append({"kind": "unroll-outputs", "msg": f"{sorted(uc.outputs())} expected {sorted(want_out)}"})
    free_l = sorted(free)
    for a in oracle.all_input_vectors(free_l):
        v = oracle.simulate(uc, a)
        prev = None
        for t in range(n):
            step_in = {}
            for i in ins:
                if i in state_in:
                    if t == 0:
                        step_in[i] = a[io_map[i][0]]
                    else:
                        k = [kk for kk, vv in st.items() if vv == i][0]
                        step_in[i] = prev[k]
                else:
                    step_in[i] = a[io_map[i][t]]
            cur = oracle.simulate(c, step_in)
            for o in set(outs) | set(ins):
                if v[io_map[o][t]] != cur[o]:
                    fails.append({"kind": "unroll-value-wrong", "msg": f"io {o} step {t}: unrolled={v[io_map[o][t]]} iterated={cur[o]} state_io={st} n={n} free={a}"})
                    break
            if fails:
                break
            prev = cur
        if fails:
            break
    lv = spec.lint_violations(uc)
    if lv:
        fails.append({"kind": "unroll-result-not-lintclean", "msg": str(lv[:3])})
    if circ.snapshot(c) != snap:
        fails.append({"kind": "argument-mutated", "msg": "unroll changed its argument"})
    return {"nontrivial": n >= 2 and bool(st), "failures": fails}


def _run_seq(case):
    c = circ.build(case["c"])
    if not spec.lintclean(c):
        return {"nontrivial": False, "failures": []}
    n, afo, iv, ru, ign, wide = case["n"], case["afo"], case["iv"], case["ru"], case["ignore"], case["wide"]
    fails = []
    snap = circ.snapshot(c)
    ffs = sorted(c.blackboxes)
    res, bad_ = gen.guarded("sequential_unroll", lambda: cg.tx.sequential_unroll(
        c, n, "d", "q", ignore_pins=ign, add_flop_outputs=afo, initial_values=(dict(iv) if isinstance(iv, dict) else iv), remove_unloaded=ru),
        list(c.graph.nodes))
    if bad_ == "skip":
        return {"nontrivial": False, "failures": []}
    if bad_:
        return {"nontrivial": True, "failures": [bad_]}
    uc, io_map = res
    g = c.graph
    prim_in = sorted(x for x in g if g.nodes[x]["type"] == "input")
    prim_out = sorted(x for x in g if g.nodes[x].get("output"))
    # combinational core for the reference: flop q pins free, everything else as is
    def step(inp, state):
        asg = dict(inp)
        for f in ffs:
            asg[f"{f}.q"] = state[f]
            if wide:
                asg[f"{f}.qn"] = not state[f]
        return oracle.simulate(c, asg)
    kept_in = [i for i in prim_in if not (ru and g.out_degree(i) == 0 and not g.nodes[i].get("output"))]
    # inputs that only feed removed flop pins become unloaded once those pins are deleted
    def loads_only_dropped_pins(i):
        return all(g.nodes[s]["type"] == "bb_input" and s.split(".")[-1] != "d" for s in g.successors(i))
    kept_in = [i for i in prim_in if not (ru and loads_only_dropped_pins(i) and not g.nodes[i].get("output"))]
    for o in prim_out:
        if o not in io_map or len(io_map[o]) != n:
            fails.append({"kind": "sequential_unroll-output-missing-from-io_map", "msg": f"output {o}; io_map keys {sorted(io_map)}"})
            return {"nontrivial": True, "failures": fails}
    for f in ffs:
        for k in (f"{f}_d", f"{f}_q"):
            if k not in io_map or len(io_map[k]) != n:
                fails.append({"kind": "sequential_unroll-state-missing-from-io_map", "msg": k})
                return {"nontrivial": True, "failures": fails}
    def init_of(f):
        if iv is None:
            return None
        if isinstance(iv, str):
            return iv == "1"
        return (iv[f] == "1") if f in iv else None
    free_state = [f for f in ffs if init_of(f) is None]
    want_free = {io_map[f"{f}_q"][0] for f in free_state} | {io_map[i][t] for i in kept_in for t in range(n)}
    try:
        free = set(oracle.free_nodes(uc))
    except oracle.OracleError as e:
        return {"nontrivial": True, "failures": [{"kind": "sequential_unroll-x", "msg": str(e)}]}
    if free != want_free:
        fails.append({"kind": "sequential_unroll-free-signals", "msg": f"free {sorted(free)} expected {sorted(want_free)} (ru={ru}, ignore={ign})"})
        return {"nontrivial": True, "failures": fails}
    want_out = {io_map[o][t] for o in prim_out for t in range(n)}
    if afo:
        want_out |= {io_map[f"{f}_d"][t] for f in ffs for t in range(n)}
    if set(uc.outputs()) != want_out:
        fails.append({"kind": "sequential_unroll-outputs", "msg": f"outputs {sorted(uc.outputs())} expected {sorted(want_out)} (add_flop_outputs={afo}, ignore={ign}, ru={ru})"})
    free_l = sorted(free)
    if len(free_l) <= 11:
        for a in oracle.all_input_vectors(free_l):
            v = oracle.simulate(uc, a)
            state = {f: (init_of(f) if init_of(f) is not None else a[io_map[f"{f}_q"][0]]) for f in ffs}
            for t in range(n):
                inp = {i: (a[io_map[i][t]] if i in kept_in else False) for i in prim_in}
                cur = step(inp, state)
                for o in prim_out:
                    if v[io_map[o][t]] != cur[o]:
                        fails.append({"kind": "sequential_unroll-value-wrong", "msg": f"output {o} cycle {t}: unrolled={v[io_map[o][t]]} simulated={cur[o]} iv={iv} free={a}"})
                        break
                for f in ffs:
                    if v[io_map[f"{f}_d"][t]] != cur[f"{f}.d"]:
                        fails.append({"kind": "sequential_unroll-d-value-wrong", "msg": f"flop {f} cycle {t}"})
                        break
                if fails:
                    break
                state = {f: cur[f"{f}.d"] for f in ffs}
            if fails:
                break
    if circ.snapshot(c) != snap:
        fails.append({"kind": "argument-mutated", "msg": "sequential_unroll changed its argument"})
    return {"nontrivial": n >= 2, "failures": fails}


def run_case(case):
    return _run_unroll(case) if case["f"] == "unroll" else _run_seq(case)
