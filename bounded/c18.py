"""C18 bounded stand-in: acyclic_unroll removes cycles and preserves stable states."""
import itertools

import networkx as nx

from vlib import circ, gen, oracle, spec
import circuitgraph as cg

RULE = ("every digraph with 1..2 inputs and 2 gate nodes over {and,or,nand,not,xor} that contains a cycle and no "
        "self-loop, sampled ones with 3 gates, and seeded random lint-clean cyclic circuits (nested / overlapping "
        "cycles, several SCCs, constants, outputs that are inputs); every input valuation and every stable state "
        "(brute-force fixed points) is checked; non-trivial = the circuit has at least one stable state"
        "; plus: names derived from the library's own naming templates, shuffled node insertion order"
        "; a 7-gate skeleton of nested loops sharing edges under permuted names, insertion orders and gate types")
BOUND = "circuits <= 11 nodes, <= 3 inputs; all valuations and fixed points; 4/16 hash seeds"
GT = ["and", "or", "nand", "not", "xor"]


def _enum(n_in, m, rng=None, p=1.0):
    ins = [f"i{k}" for k in range(n_in)]
    gs = [f"g{k}" for k in range(m)]
    per_gate = []
    for g in gs:
        others = ins + [x for x in gs if x != g]
        opts = []
        for t in GT:
            if t == "not":
                opts += [(t, (o,)) for o in others]
            else:
                for k in range(1, len(others) + 1):
                    opts += [(t, fis) for fis in itertools.combinations(others, k)]
        per_gate.append(opts)
    for combo in itertools.product(*per_gate):
        if rng is not None and rng.random() > p:
            continue
        edges = [[f, g] for g, (t, fis) in zip(gs, combo) for f in fis]
        dg = nx.DiGraph(edges)
        if nx.is_directed_acyclic_graph(dg):
            continue
        nodes = [[i, "input", False] for i in ins] + [[g, t, True] for g, (t, _) in zip(gs, combo)]
        yield {"name": "cyc", "nodes": nodes, "edges": edges, "bbs": {}}


def cases(tier, seed):
    rng = gen.rng_for(seed, "c18")
    for cd in _enum(1, 2):
        yield {"c": cd}
    for cd in _enum(2, 2, rng, 0.15 if tier == "quick" else 1.0):
        yield {"c": cd}
    for cd in _enum(1, 3, rng, 0.0004 if tier == "quick" else 0.01):
        yield {"c": cd}
    # cycles over names that contain the function's own helper prefixes (aux_in_, c0_): every rotation / type mix
    pool = ["a", "aux_in_a", "b", "aux_in_b", "c0_a"]
    for ring in itertools.permutations(pool, 3):
        for tys in itertools.product(["not", "and", "nand"], repeat=3):
            if tys.count("not") not in (1, 3) and rng.random() > 0.25:
                continue
            nodes = [["i0", "input", False]] + [[n, t, True] for n, t in zip(ring, tys)]
            edges = [[ring[k], ring[(k + 1) % 3]] for k in range(3)] + [["i0", n] for n, t in zip(ring, tys) if t != "not"]
            yield {"c": {"name": "ring", "nodes": nodes, "edges": edges, "bbs": {}}}
    # rings of ONE-input gates of every type (a one-input nand / nor / xnor inverts, a one-input and / or / xor forwards),
    # observed through an output gate that also reads a primary input
    one_in = ["not", "buf", "nand", "nor", "xnor", "and", "or", "xor"]
    for k_, tys in enumerate(itertools.product(one_in, repeat=3)):
        if k_ % (5 if tier == "quick" else 1):
            continue
        ring = ["r0", "r1", "r2"]
        nodes = [["i0", "input", False]] + [[n, t, False] for n, t in zip(ring, tys)] + [["o", "and", True], ["p", "xor", True]]
        edges = [[ring[j], ring[(j + 1) % 3]] for j in range(3)] + [["r1", "o"], ["i0", "o"], ["r2", "p"], ["i0", "p"]]
        yield {"c": {"name": "ring1", "nodes": nodes, "edges": edges, "bbs": {}}}
    # a skeleton of several nested loops that share edges (every node on >= 2 cycles), under permuted names, insertion
    # orders and gate types: which edges the feedback-set heuristic picks depends on all three
    skel = [("g0", 2, ["g4", "g3"]), ("g2", 1, ["g4"]), ("g3", 3, ["g2", "g4", "g0"]), ("g4", 1, ["g8"]),
            ("g6", 1, ["g2"]), ("g8", 2, ["g9", "g6"]), ("g9", 2, ["g8", "g2"])]
    for i in range(40 if tier == "quick" else 600):
        names = [r[0] for r in skel]
        perm = names[:]
        order = list(range(len(skel)))
        if i:
            rng.shuffle(perm)
            rng.shuffle(order)
        ren = dict(zip(names, perm))
        nodes = [["i0", "input", False]]
        edges = []
        for k in order:
            n_, ar, fi = skel[k]
            t = rng.choice(["buf", "buf", "not"]) if ar == 1 else rng.choice(["and", "or", "nand", "nor", "xor", "xnor"])
            nodes.append([ren[n_], t, n_ in ("g3", "g9")])
            edges += [[ren[f], ren[n_]] for f in fi]
        if i % 2:
            edges += [["i0", ren["g0"]], ["i0", ren["g9"]]]
        else:
            nodes.append(["y", "and", True])
            edges += [["i0", "y"], [ren["g3"], "y"]]
        yield {"c": {"name": "nest", "nodes": nodes, "edges": edges, "bbs": {}}}
    for i in range(120 if tier == "quick" else 2500):
        cd = gen.random_circuit(rng, n_in=rng.randint(1, 3), n_gates=rng.randint(2, 7), max_fanin=3, p_const=0.2,
                                cyclic=rng.randint(1, 3), p_out=0.4, allow_input_output=rng.random() < 0.2,
                                names=(gen.NASTY_NAMES if rng.random() < 0.15 else None))
        if rng.random() < 0.25:
            cd = gen.adversarial_rename(cd, rng)  # names the transform itself would derive from other nodes
        if rng.random() < 0.3:
            cd = gen.shuffle_nodes(cd, rng)  # node insertion order decides iteration order inside the library
        yield {"c": cd}


def run_case(case):
    c = circ.build(case["c"])
    g = c.graph
    if not spec.lintclean(c) or c.blackboxes or nx.is_directed_acyclic_graph(g) or any(g.has_edge(n, n) for n in g):
        return {"nontrivial": False, "failures": []}
    fails = []
    snap = circ.snapshot(c)
    try:
        a = cg.tx.acyclic_unroll(c)
    except Exception as ex:
        # a clash between the prefixed copy names (c<i>_<node>, aux_in_<node>) and the circuit's own io names is
        # rejected loudly by add()/add_subcircuit(); that is a stated rejection, not a violation
        names = set(g.nodes)
        pref = {f"c{i}_{x}" for i in range(len(names) + 2) for x in names | {f"aux_in_{y}" for y in names}}
        if isinstance(ex, ValueError) and (pref & names or any(f"aux_in_{y}" in names for y in names)):
            return {"nontrivial": False, "failures": []}
        return {"nontrivial": True, "failures": [{"kind": "acyclic_unroll-raises", "msg": repr(ex)}]}
    if not nx.is_directed_acyclic_graph(a.graph):
        fails.append({"kind": "acyclic_unroll-still-cyclic", "msg": ""})
    lv = spec.lint_violations(a)
    if lv:
        fails.append({"kind": "acyclic_unroll-not-lintclean", "msg": str(lv[:3])})
    if set(a.outputs()) != set(c.outputs()):
        fails.append({"kind": "acyclic_unroll-outputs", "msg": f"{sorted(a.outputs())} expected {sorted(c.outputs())}"})
    ins = sorted(c.inputs())
    aux = sorted(set(a.inputs()) - set(ins))
    if not set(ins) <= set(a.inputs()):
        fails.append({"kind": "acyclic_unroll-inputs-lost", "msg": f"{sorted(a.inputs())}"})
    auxmap = {}
    for x in aux:
        f = x[len("c0_aux_in_"):] if x.startswith("c0_aux_in_") else None
        if f is None or f not in g:
            fails.append({"kind": "acyclic_unroll-unexpected-input", "msg": x})
        else:
            auxmap[x] = f
    if len(set(auxmap.values())) != len(auxmap):
        fails.append({"kind": "acyclic_unroll-aux-not-one-per-node", "msg": str(auxmap)})
    n_stable = 0
    if not fails:
        # cutting the aux nodes must break every cycle (one aux per cut feedback node)
        try:
            free_a = set(oracle.free_nodes(a))
        except oracle.OracleError as e:
            return {"nontrivial": True, "failures": [{"kind": "acyclic_unroll-x", "msg": str(e)}]}
        if free_a != set(a.inputs()):
            fails.append({"kind": "acyclic_unroll-free-signals", "msg": f"{sorted(free_a)} vs inputs {sorted(a.inputs())}"})
        else:
            for s in oracle.consistent_valuations(c):
                n_stable += 1
                asg = {i: s[i] for i in ins}
                asg.update({x: s[f] for x, f in auxmap.items()})
                v = oracle.simulate(a, asg)
                bad = [o for o in c.outputs() if v[o] != s[o]]
                if bad:
                    fails.append({"kind": "acyclic_unroll-stable-state-not-preserved",
                                  "msg": f"outputs {sorted(bad)} differ: stable {({o: s[o] for o in bad})} unrolled {({o: v[o] for o in bad})}; inputs {({i: s[i] for i in ins})}"})
                    break
    if circ.snapshot(c) != snap:
        fails.append({"kind": "argument-mutated", "msg": "acyclic_unroll changed its argument"})
    return {"nontrivial": n_stable > 0, "failures": fails}
