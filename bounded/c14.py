"""C14 bounded stand-in: fast (regex) Verilog parser vs the full parser on the documented subset."""
import re

from vlib import circ, gen, oracle, spec, vlog
import circuitgraph as cg

RULE = ("netlists of the restricted subset (single module, no comments, one named primitive instance per statement, "
        "assigns of a net or constant, 1'b0/1'b1 constants also as gate operands, named-port blackbox instances with "
        "connected/unconnected/omitted pins, every output driven) in every statement order sampled, rendered plain, "
        "tight, and with fuzzed spaces/tabs/newlines (never between `)` and `;`); names from a plain universe and one "
        "containing x_input, my_output, assign1, tie0, wire_a; plus the bundled c17; both parsers' circuits compared: "
        "io, registry, pin nets, graph identity modulo constant-node names, function; non-trivial = >=2 items"
        "; plus: blackbox types whose pins and names (BUF, Nand) vary between netlists parsed by one process")
BOUND = "<= 4 inputs, <= 7 items, <= 2 blackbox instances; 4/16 hash seeds"
ODD = ["x_input", "my_output", "assign1", "tie0", "tie1", "wire_a", "inputx", "outputy", "b0", "b1", "b_0", "opb0", "a", "b", "c", "d", "e", "f", "g", "h", "k", "m"]


def cases(tier, seed):
    rng = gen.rng_for(seed, "c14")
    n = 300 if tier == "quick" else 6000
    for i in range(n):
        odd = rng.random() < 0.4
        nl = vlog.rand_netlist(rng, n_in=rng.randint(1, 4), n_items=rng.randint(1, 6), bb=rng.choice([0, 0, 1, 2]),
                               restricted=True, unconnected=rng.choice([0.0, 0.3]), omitted=rng.choice([0.0, 0.2]), const_pins=rng.choice([0.0, 0.4]),
                               names=(list(ODD) if odd else None))
        yield {"nl": nl, "layout": rng.choice(["plain", "fuzz", "fuzz", "tight"]), "order": rng.choice([None, "shuffle"]), "salt": i}
    yield {"lib": "c17"}


def _norm(c):
    d = circ.describe(c)
    ren = {}
    for n, t, o in d["nodes"]:
        if t in ("0", "1"):
            ren[n] = f"<const{t}>"
    d["nodes"] = sorted([[ren.get(n, n), t, bool(o)] for n, t, o in d["nodes"]])
    d["edges"] = sorted([[ren.get(u, u), ren.get(v, v)] for u, v in d["edges"]])
    d.pop("name")
    return d


def run_case(case):
    fails = []
    if "lib" in case:
        import os
        path = os.path.join(os.path.dirname(cg.__file__), "netlists", case["lib"] + ".v")
        text = open(path).read()
        if "//" in text or "/*" in text:
            return {"nontrivial": False, "failures": []}
        name, bbs, nl = case["lib"], [], None
        tags = []
    else:
        nl = case["nl"]
        rng = gen.rng_for(case["salt"], "render14")
        text = vlog.render(nl, rng, layout=case["layout"], order=case["order"], comments=False, one_per_statement=True, b_consts_only=True)
        name = nl["name"]
        bbs = [circ.blackbox(k, i, o) for k, (i, o) in sorted(nl["bbs"].items())]
        allnames = set(nl["inputs"]) | set(nl["outputs"]) | set(nl["wires"])
        tags = []
        if (set(nl["outputs"]) | set(nl["wires"])) & {"tie0", "tie1"}:
            tags.append("[net-named-like-fast-parser-constant]")   # D23 is about NON-input nets of that name
        if any(re.search(r"(input|output)$", x) for x in allnames):
            tags.append("[name-ending-in-input-or-output]")
        if re.search(r"\)\s*,\s*\.", text) and not re.search(r"\)\s*,\s+\.", text) or re.search(r"\),\.", text):
            tags.append("[no-space-between-pin-connections]")
        if any(it[0] == "bb" and None in it[3].values() for it in nl["items"]):
            tags.append("[unconnected-pin]")

    def fail(kind, msg):
        fails.append({"kind": kind + (tags[0] if tags else ""), "msg": msg + "\n" + text})

    try:
        full = cg.io.verilog_to_circuit(text, name, blackboxes=bbs)
    except Exception as ex:
        fail("full-parser-raises-" + type(ex).__name__, repr(ex)[:200])
        return {"nontrivial": True, "failures": fails}
    try:
        fast = cg.io.verilog_to_circuit(text, name, blackboxes=bbs, fast=True)
    except Exception as ex:
        fail("fast-parser-raises-" + type(ex).__name__, repr(ex)[:200])
        return {"nontrivial": True, "failures": fails}
    if fast.inputs() != full.inputs() or fast.outputs() != full.outputs():
        fail("io-differs", f"fast inputs {sorted(fast.inputs())} outputs {sorted(fast.outputs())}; full inputs {sorted(full.inputs())} outputs {sorted(full.outputs())}")
        return {"nontrivial": True, "failures": fails}
    if {k: b.name for k, b in fast.blackboxes.items()} != {k: b.name for k, b in full.blackboxes.items()}:
        fail("blackbox-instances-differ", f"{sorted(fast.blackboxes)} vs {sorted(full.blackboxes)}")
        return {"nontrivial": True, "failures": fails}
    a, b = _norm(fast), _norm(full)
    if a != b:
        dn = [x for x in a["nodes"] if x not in b["nodes"]][:3], [x for x in b["nodes"] if x not in a["nodes"]][:3]
        de = [x for x in a["edges"] if x not in b["edges"]][:3], [x for x in b["edges"] if x not in a["edges"]][:3]
        fail("graphs-differ", f"nodes only in fast/full: {dn}; edges only in fast/full: {de}")
    return {"nontrivial": nl is None or len(nl["items"]) >= 2, "failures": fails}
