"""C11 bounded stand-in: sensitization / sensitivity transforms and the analyses built on them."""
import itertools
from fractions import Fraction

import networkx as nx

from vlib import circ, gen, oracle, spec, sem
import circuitgraph as cg

RULE = ("every 2-input <=2-gate circuit and seeded random lint-clean acyclic blackbox-free circuits with 1..5 "
        "startpoints in the cone (constants, functionally constant nodes, outputs that are inputs) x every node n with "
        "a startpoint in its cone x endpoint choices {default, one output, random subset}; every input valuation is "
        "simulated with n (or a startpoint) inverted by an independent evaluator; non-trivial = n is a gate with >=2 "
        "startpoints in its cone"
        "; plus: influence of a two-node list against the single-node calls, template-derived names (a name-clash ValueError on such a circuit is a stated rejection), shuffled node order"
        "; histories: an endpoint-restricted sensitization_transform of the same object before the calls under test")
BOUND = "circuits <= 10 nodes, <= 5 startpoints; all valuations; 4/16 hash seeds"


def cases(tier, seed):
    rng = gen.rng_for(seed, "c11")
    for n_g in (1, 2):
        for i, cd in enumerate(gen.enum_circuits(2, n_g, outputs="each")):
            if i % ((3 if n_g == 1 else 60) if tier == "quick" else 6):
                continue
            for n in [r[0] for r in cd["nodes"]]:
                yield {"c": cd, "n": n, "ep": None, "warm": i % 2 == 0}
    for i in range(60 if tier == "quick" else 1200):
        cd = gen.random_circuit(rng, n_in=rng.randint(1, 4), n_gates=rng.randint(1, 5), max_fanin=3, p_const=0.3,
                                p_out=0.4, allow_input_output=rng.random() < 0.3)
        if rng.random() < 0.25:
            cd = gen.adversarial_rename(cd, rng)  # names the transform itself would derive from other nodes
        if rng.random() < 0.3:
            cd = gen.shuffle_nodes(cd, rng)  # node insertion order decides iteration order inside the library
        names = [r[0] for r in cd["nodes"]]
        outs = [r[0] for r in cd["nodes"] if r[2]]
        for n in rng.sample(names, min(3, len(names))):
            eps = [None]
            if outs:
                eps.append([rng.choice(outs)])
                eps.append(sorted(rng.sample(outs, rng.randint(1, len(outs)))))
            others = [m for m in names if m != n]
            yield {"c": cd, "n": n, "ep": rng.choice(eps), "n2": (rng.choice(others) if others and rng.random() < 0.5 else None),
                   "warm": rng.random() < 0.4}


def _eval_forced(c, inputs, forced):
    """Evaluate acyclic c with some nodes forced to the NEGATION of their normal function."""
    v = {}
    g = c.graph
    for n in nx.topological_sort(g):
        t = g.nodes[n]["type"]
        if t == "input":
            val = inputs[n]
        else:
            val = oracle.gate_value(t, [v[p] for p in g.predecessors(n)])
        v[n] = (not val) if n in forced else val
    return v


def _rejected_for_names(ex, g):
    """a ValueError that reports a name clash on a circuit containing names shaped like the library's own derived names
    is a legitimate rejection (outside the property's domain), not a failure"""
    msg = str(ex)
    return ("already in circuit" in msg or "overlap" in msg or "already exists" in msg) and any(gen.looks_derived(x) for x in g)


def run_case(case):
    c = circ.build(case["c"])
    n = case["n"]
    ep = case["ep"]
    if not spec.lintclean(c) or c.blackboxes or not sem.is_dag(c):
        return {"nontrivial": False, "failures": []}
    g = c.graph
    ins = sorted(x for x in g if g.nodes[x]["type"] == "input")
    cone = nx.ancestors(g, n) | {n}
    sp = sorted(x for x in ins if x in cone)
    if not sp:
        return {"nontrivial": False, "failures": []}
    fails = []
    snap = circ.snapshot(c)
    outs = sorted(x for x in g if g.nodes[x].get("output"))
    if case.get("warm"):
        # an earlier endpoint-restricted analysis of the same object must not influence the ones under test
        for o in outs:
            if n == o or n in nx.ancestors(g, o):
                try:
                    cg.tx.sensitization_transform(c, n, endpoints=[o])
                except ValueError:
                    pass
                break

    # ---- sensitization_transform + sensitize
    E = list(ep) if ep else outs
    in_cone_of_E = n in set().union(*[nx.ancestors(g, e) | {e} for e in E]) if E else False
    if E and in_cone_of_E:
        try:
            m = cg.tx.sensitization_transform(c, n, endpoints=(list(ep) if ep else None))
        except ValueError as ex:
            if _rejected_for_names(ex, g):
                return {"nontrivial": False, "failures": []}
            m = None
            kind = "sensitization_transform-raises"
            if ep and n in ep and n not in set().union(*[nx.ancestors(g, e) for e in E]):
                kind += "-when-n-is-the-endpoint"
            fails.append({"kind": kind, "msg": f"n={n} endpoints={ep}: {ex!r}"})
        if m is not None:
            m_ins = sorted(m.inputs())
            sub_nodes = set(g) if not ep else set().union(*[nx.ancestors(g, e) | {e} for e in E])
            want_ins = sorted(x for x in ins if x in sub_nodes)
            if m_ins != want_ins or set(m.outputs()) != {"sat"}:
                fails.append({"kind": "sensitization_transform-io", "msg": f"inputs {m_ins} expected {want_ins}; outputs {sorted(m.outputs())}"})
            else:
                any_sat = False
                for a in oracle.all_input_vectors(want_ins):
                    full = {i: a.get(i, False) for i in ins}
                    base = _eval_forced(c, full, set())
                    flip = _eval_forced(c, full, {n})
                    want = any(base[e] != flip[e] for e in E)
                    any_sat |= want
                    v = oracle.simulate(m, a)
                    if v["sat"] != want:
                        fails.append({"kind": "sensitization_transform-sat-wrong", "msg": f"n={n} E={E} inputs={a}: sat={v['sat']} expected {want}"})
                        break
                if not ep and not fails:
                    r = cg.props.sensitize(c, n)
                    if (r is None) != (not any_sat):
                        fails.append({"kind": "sensitize-existence-wrong", "msg": f"n={n}: returned {r} but sensitizing input exists={any_sat}"})
                    elif r is not None:
                        if set(r) != set(want_ins):
                            fails.append({"kind": "sensitize-domain", "msg": f"{sorted(r)}"})
                        else:
                            base = _eval_forced(c, r, set())
                            flip = _eval_forced(c, r, {n})
                            if not any(base[e] != flip[e] for e in outs):
                                fails.append({"kind": "sensitize-input-does-not-sensitize", "msg": f"n={n} r={r}"})
                    # with an assumption that pins one input
                    s0 = want_ins[0]
                    r2 = cg.props.sensitize(c, n, {s0: True})
                    exists = False
                    for a in oracle.all_input_vectors(want_ins):
                        if a[s0]:
                            b0 = _eval_forced(c, a, set())
                            f0 = _eval_forced(c, a, {n})
                            exists |= any(b0[e] != f0[e] for e in outs)
                    if (r2 is None) != (not exists):
                        fails.append({"kind": "sensitize-assumption-wrong", "msg": f"n={n} assume {s0}=1: {r2} vs exists={exists}"})

    # ---- sensitivity_transform, sensitivity, influence, avg_sensitivity
    counts = []
    infl = {s: 0 for s in sp}
    for a in oracle.all_input_vectors(sp):
        full = {i: a.get(i, False) for i in ins}
        base = _eval_forced(c, full, set())[n]
        k = 0
        for s in sp:
            fl = dict(full)
            fl[s] = not fl[s]
            if _eval_forced(c, fl, set())[n] != base:
                k += 1
                infl[s] += 1
        counts.append((a, k))
    if not fails:
        try:
            st = cg.tx.sensitivity_transform(c, n)
        except Exception as ex:
            if isinstance(ex, ValueError) and _rejected_for_names(ex, g):
                return {"nontrivial": False, "failures": []}
            st = None
            fails.append({"kind": "sensitivity_transform-raises", "msg": f"n={n}: {ex!r}"})
        if st is not None:
            if sorted(st.inputs()) != sp:
                fails.append({"kind": "sensitivity_transform-inputs", "msg": f"{sorted(st.inputs())} expected {sp}"})
            else:
                nbits = len([o for o in st.outputs() if o.startswith("sen_out_")])
                for a, k in counts:
                    v = oracle.simulate(st, a)
                    full = {i: a.get(i, False) for i in ins}
                    base = _eval_forced(c, full, set())[n]
                    for s in sp:
                        fl = dict(full)
                        fl[s] = not fl[s]
                        want = _eval_forced(c, fl, set())[n] != base
                        if v.get(f"dif_out_{s}") != want:
                            fails.append({"kind": "sensitivity_transform-dif_out-wrong", "msg": f"n={n} s={s} inputs={a}: {v.get(f'dif_out_{s}')} expected {want}"})
                            break
                    got = sum((1 << b) for b in range(nbits) if v[f"sen_out_{b}"])
                    if got != k and not fails:
                        fails.append({"kind": "sensitivity_transform-sen_out-wrong", "msg": f"n={n} inputs={a}: sen_out={got} expected {k}"})
                    if fails:
                        break
    if not fails:
        want_sens = 1 if n in sp else max(k for _, k in counts)
        try:
            got = cg.props.sensitivity(c, n)
            if got != want_sens:
                fails.append({"kind": "sensitivity-wrong", "msg": f"n={n}: {got} expected {want_sens} (|sp|={len(sp)})"})
        except Exception as ex:
            if isinstance(ex, ValueError) and _rejected_for_names(ex, g):
                return {"nontrivial": False, "failures": []}
            fails.append({"kind": "sensitivity-raises", "msg": f"n={n}: {ex!r}"})
        want_infl = {s: Fraction(infl[s], 1 << len(sp)) for s in sp}
        try:
            got = cg.props.influence(c, n, approx=False)
            if set(got) != set(sp) or any(Fraction(got[s]).limit_denominator(1 << 16) != want_infl[s] for s in sp):
                fails.append({"kind": "influence-wrong", "msg": f"n={n}: {got} expected {({k: str(v) for k, v in want_infl.items()})}"})
            tot = cg.props.avg_sensitivity(c, n, approx=False)
            if Fraction(tot).limit_denominator(1 << 16) != sum(want_infl.values()):
                fails.append({"kind": "avg_sensitivity-wrong", "msg": f"n={n}: {tot} expected {sum(want_infl.values())}"})
            n2 = case.get("n2")
            if n2 is not None and n2 in g and not fails and c.startpoints(n2):
                # a list of nodes gives, per node, what the single-node call gives (the single-node values are checked above)
                both = cg.props.influence(c, [n, n2], approx=False)
                one2 = cg.props.influence(c, n2, approx=False)
                if both != {n: got, n2: one2}:
                    fails.append({"kind": "influence-of-a-list-differs-from-single-calls", "msg": f"[{n},{n2}]: {both} vs {got} / {one2}"})
        except Exception as ex:
            if isinstance(ex, ValueError) and _rejected_for_names(ex, g):
                return {"nontrivial": False, "failures": []}
            kind = "influence-raises" + ("-for-input-node" if g.nodes[n]["type"] == "input" else "")
            fails.append({"kind": kind, "msg": f"n={n}: {ex!r}"})
    if circ.snapshot(c) != snap:
        fails.append({"kind": "argument-mutated", "msg": "an analysis changed its argument"})
    return {"nontrivial": len(sp) >= 2 and g.nodes[n]["type"] != "input", "failures": fails}
