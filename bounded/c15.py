"""C15 bounded stand-in: bench reader vs an independent bench evaluator, and writer->reader round trip."""
import itertools

from vlib import circ, gen, oracle, spec, sem, vlog
import circuitgraph as cg

RULE = ("bench texts generated from a dialect model: INPUT/OUTPUT lines, gates with every keyword in upper/lower case "
        "(BUF, BUFF, NOT, AND, NAND, OR, NOR, XOR, XNOR) at arity 1..4 incl. repeated operands, DFF lines (chains, "
        "DFF fed by a later DFF), every line order sampled, outputs before definitions, whitespace variants (blanks "
        "around = ( , ) and before `(`), comment lines; every valuation of inputs and flop outputs compared net by net; "
        "round trip writer->reader for every 2-input <=2-gate circuit (sampled) and random blackbox-free circuits "
        "with >=1 input, with and without constants; non-trivial = text has >=2 gate/DFF lines"
        "; plus: operand lists with 2-5 repeats in both spellings of every parity / and / nor keyword"
        "; repeated operands whose names are substrings of other operands, of the keyword or of the driven net")
BOUND = "<= 4 inputs, <= 7 gate lines, <= 3 DFFs (<= 8 free signals); 4/16 hash seeds"
KW = ["BUF", "BUFF", "NOT", "AND", "NAND", "OR", "NOR", "XOR", "XNOR"]


def rand_bench(rng, n_in, n_g, n_dff, repeated=False):
    ins = [f"i{k}" for k in range(n_in)]
    qs = [f"q{k}" for k in range(n_dff)]
    avail = ins + qs
    gates = []
    for k in range(n_g):
        kw = rng.choice(KW)
        if kw in ("BUF", "BUFF", "NOT"):
            ops = [rng.choice(avail)]
        else:
            m = rng.randint(1, 4)
            ops = [rng.choice(avail) for _ in range(m)] if repeated else rng.sample(avail, min(m, len(avail)))
        if rng.random() < 0.4:
            kw = kw.lower()
        gates.append([f"g{k}", kw, ops])
        avail.append(f"g{k}")
    dffs = [[q, rng.choice(avail)] for q in qs]
    cands = [g[0] for g in gates] + qs
    outs = rng.sample(cands, max(1, min(len(cands), rng.randint(1, 3)))) if cands else []
    return {"inputs": ins, "outputs": outs, "gates": gates, "dffs": dffs}


def render(b, rng, style):
    def sp():
        return rng.choice(["", " ", "  ", "\t"]) if style != "plain" else ""
    lines = []
    for i in b["inputs"]:
        lines.append(("in", f"INPUT{sp()}({sp()}{i}{sp()})" if rng.random() < 0.8 or style == "plain" else f"input({i})"))
    for o in b["outputs"]:
        lines.append(("out", f"OUTPUT{sp()}({sp()}{o}{sp()})"))
    for net, kw, ops in b["gates"]:
        pre = sp() if style == "paren-space" else ""
        lines.append(("gate", f"{net}{sp() or ' '}={sp() or ' '}{kw}{pre}({(',' + (sp() or ' ')).join(ops)})"))
    for q, d in b["dffs"]:
        kw = "DFF" if rng.random() < 0.7 else "dff"
        lines.append(("dff", f"{q} = {kw}({d})"))
    if style in ("shuffle", "paren-space", "comments"):
        rng.shuffle(lines)
    text = [l for _, l in lines]
    if style == "comments":
        text.insert(0, "# a bench file")
        text.insert(rng.randrange(len(text) + 1), "# 3 inputs, 2 outputs")
    if style == "commented-gate":
        text.append("# zz = AND(" + ", ".join(b["inputs"][:2] or ["i0"]) + ")")
        if b["gates"]:
            net, kw, ops = b["gates"][-1]
            text.append(f"# {net} = NOT({ops[0]})")
    return "\n".join(text) + "\n"


def evaluate(b, a):
    defs = {net: (kw.lower(), ops) for net, kw, ops in b["gates"]}
    memo = dict(a)

    def val(n):
        if n not in memo:
            kw, ops = defs[n]
            kw = "buf" if kw == "buff" else kw
            memo[n] = vlog.gate_fn(kw, [val(o) for o in ops])
        return memo[n]
    for n in defs:
        val(n)
    return memo


def cases(tier, seed):
    rng = gen.rng_for(seed, "c15")
    for kw in KW:
        for ar in (1, 2, 3):
            if kw in ("BUF", "BUFF", "NOT") and ar > 1:
                continue
            ins = [f"i{k}" for k in range(ar)]
            for k2 in (kw, kw.lower()):
                yield {"k": "read", "b": {"inputs": ins, "outputs": ["y"], "gates": [["y", k2, ins]], "dffs": []}, "style": "plain", "salt": 0}
    for kw0 in ("XOR", "XNOR", "AND", "NOR"):
        for kw in (kw0, kw0.lower()):   # repeated operands in both spellings of the keyword (mixed case is not in the dialect)
            for ops in (["a", "a"], ["a", "b", "a"], ["a", "a", "a"], ["a", "a", "b", "b"], ["b", "a", "b", "a", "b"]):
                yield {"k": "read", "b": {"inputs": ["a", "b"], "outputs": ["y"], "gates": [["y", kw, ops]], "dffs": []}, "style": "plain", "salt": 0, "tag": "rep"}
    # repeated operands next to operands whose names contain them (n1 / n11 / xn1) or the keyword / the driven net (or1, y, y1)
    for kw0 in ("XOR", "XNOR", "OR", "NAND"):
        for kw in (kw0, kw0.lower()):
            for nm in (["n1", "n11"], ["n1", "xn1"], ["a", "a_b"], ["y1", "y11"], ["i", "i_i"]):
                for ops in ([0, 1, 0], [1, 0, 1], [0, 0, 1], [1, 1, 0], [0, 1, 1, 0], [0, 1, 0, 1, 0]):
                    yield {"k": "read", "b": {"inputs": nm, "outputs": ["y"], "gates": [["y", kw, [nm[j] for j in ops]]], "dffs": []},
                           "style": "plain", "salt": 0, "tag": "rep"}
    # DFF chains in both textual orders
    for order in ([["q1", "i0"], ["q2", "q1"]], [["q2", "q1"], ["q1", "i0"]]):
        yield {"k": "read", "b": {"inputs": ["i0"], "outputs": ["y"], "gates": [["y", "AND", ["q2", "i0"]]], "dffs": order}, "style": "plain", "salt": 0,
               "tag": "dff-order" if order[0][0] == "q2" else None}
    n = 250 if tier == "quick" else 5000
    for i in range(n):
        b = rand_bench(rng, rng.randint(1, 4), rng.randint(1, 6), rng.choice([0, 0, 1, 2, 3]), repeated=rng.random() < 0.2)
        style = rng.choice(["plain", "shuffle", "shuffle", "paren-space", "comments", "commented-gate"])
        yield {"k": "read", "b": b, "style": style, "salt": i}
    for n_g in (1, 2):
        for i, cd in enumerate(gen.enum_circuits(2, n_g, consts=("0", "1") if n_g == 1 else (), outputs="each")):
            if i % ((7 if n_g == 1 else 150) if tier == "quick" else 10):
                continue
            yield {"k": "rt", "c": cd}
    for i in range(150 if tier == "quick" else 3000):
        cd = gen.random_circuit(rng, n_in=rng.randint(1, 4), n_gates=rng.randint(1, 7), max_fanin=4, p_const=0.5, p_out=0.4,
                                allow_input_output=rng.random() < 0.2)
        if rng.random() < 0.3:
            for rec in cd["nodes"]:
                if rec[1] in ("0", "1"):
                    rec[2] = True
        yield {"k": "rt", "c": cd}


def run_case(case):
    fails = []
    if case["k"] == "rt":
        c = circ.build(case["c"])
        if not spec.lintclean(c) or c.blackboxes or not c.inputs() or any(c.graph.nodes[n]["type"] == "x" for n in c.graph):
            return {"nontrivial": False, "failures": []}
        has_const = any(c.graph.nodes[n]["type"] in ("0", "1") for n in c.graph)
        tag = "[constants]" if has_const else ""
        snap = circ.snapshot(c)
        try:
            text = cg.io.circuit_to_bench(c)
            r = cg.io.bench_to_circuit(text, c.name)
        except Exception as ex:
            return {"nontrivial": True, "failures": [{"kind": "bench-roundtrip-raises-" + type(ex).__name__ + tag, "msg": repr(ex)}]}
        if r.inputs() != c.inputs() or r.outputs() != c.outputs():
            fails.append({"kind": "bench-roundtrip-io" + tag, "msg": f"{sorted(r.inputs())}/{sorted(r.outputs())} vs {sorted(c.inputs())}/{sorted(c.outputs())}\n{text}"})
        elif sem.is_dag(c) and sem.is_dag(r):
            ok, why = sem.same_functions(r, c, sorted(c.outputs()))
            if not ok:
                fails.append({"kind": "bench-roundtrip-function" + tag, "msg": why + "\n" + text})
        if circ.snapshot(c) != snap:
            fails.append({"kind": "argument-mutated", "msg": "circuit_to_bench changed its argument"})
        return {"nontrivial": len(c.graph) > len(c.inputs()), "failures": fails}
    b = case["b"]
    rng = gen.rng_for(case["salt"], "bench-render")
    text = render(b, rng, case["style"])
    tags = []
    if case.get("tag") == "rep" or any(len(set(ops)) != len(ops) and kw.lower() in ("xor", "xnor") for _, kw, ops in b["gates"]):
        tags.append("[repeated-parity-operand]")
    if case["style"] == "commented-gate":
        tags.append("[commented-out-gate-line]")
    dffpos = {q: i for i, (q, d) in enumerate(b["dffs"])}
    order_in_text = [l.split()[0] for l in text.split("\n") if "= DFF" in l or "= dff" in l]
    if any(d in dffpos and order_in_text.index(d) > order_in_text.index(q) for q, d in b["dffs"] if d in order_in_text and q in order_in_text):
        tags.append("[dff-fed-by-later-dff]")
    if case["style"] == "paren-space" and any(("AND" in l.upper() or "OR" in l.upper() or "NOT" in l.upper() or "BUF" in l.upper()) and
                                              __import__("re").search(r"[A-Za-z]\s+\(", l.split("=")[-1]) for l in text.split("\n") if "=" in l):
        tags.append("[blank-before-parenthesis]")

    def fail(kind, msg):
        fails.append({"kind": kind + (tags[0] if tags else ""), "msg": msg + "\n" + text})
    try:
        c = cg.io.bench_to_circuit(text, "b")
    except Exception as ex:
        fail("bench-reader-raises-" + type(ex).__name__, repr(ex)[:200])
        return {"nontrivial": True, "failures": fails}
    if set(c.inputs()) != set(b["inputs"]) or set(c.outputs()) != set(b["outputs"]):
        fail("bench-io-differs", f"inputs {sorted(c.inputs())} outputs {sorted(c.outputs())}")
        return {"nontrivial": True, "failures": fails}
    pin_of = {}
    if len(c.blackboxes) != len(b["dffs"]):
        fail("bench-dff-count", f"{sorted(c.blackboxes)}")
        return {"nontrivial": True, "failures": fails}
    for q, d in b["dffs"]:
        cand = [inst for inst in c.blackboxes if set(c.graph.successors(f"{inst}.Q")) == {q}]
        if len(cand) != 1 or set(c.graph.predecessors(f"{cand[0]}.D")) != {d}:
            fail("bench-dff-wiring", f"DFF {q} <- {d}: instances {cand}")
            return {"nontrivial": True, "failures": fails}
        pin_of[q] = f"{cand[0]}.Q"
    free = list(b["inputs"]) + [q for q, _ in b["dffs"]]
    nets = free + [g[0] for g in b["gates"]]
    for n in nets:
        if n not in c.graph:
            fail("bench-net-missing", n)
            return {"nontrivial": True, "failures": fails}
    want_free = set(b["inputs"]) | set(pin_of.values())
    try:
        got_free = set(oracle.free_nodes(c))
    except oracle.OracleError as e:
        fail("bench-x", str(e))
        return {"nontrivial": True, "failures": fails}
    if got_free != want_free:
        fail("bench-free-signals", f"{sorted(got_free)} expected {sorted(want_free)}")
        return {"nontrivial": True, "failures": fails}
    for a in oracle.all_input_vectors(free):
        want = evaluate(b, a)
        asg = {pin_of.get(k, k): v for k, v in a.items()}
        got = oracle.simulate(c, asg)
        bad = [n for n in nets if got[n] != want[n]]
        if bad:
            fail("bench-net-value-differs", f"{bad} under {a}: circuit {({n: got[n] for n in bad})}")
            break
    return {"nontrivial": len(b["gates"]) + len(b["dffs"]) >= 2, "failures": fails}
