"""C16 bounded stand-in: the sidecar contract of Circuit.remove_unloaded evaluated
on the real function (contract text: contracts/circuit_c16.py / DESIGN section 8 C16)."""
import itertools

import networkx as nx

from vlib import circ, gen

RULE = ("every circuit with <=2 inputs (+ optional constant) and <=3 gates over {and,buf} x every "
        "output marking (incl. none) x inputs flag, then seeded random DAGs with dead sub-graphs and "
        "flop blackboxes; non-trivial = at least one node is dead or unloaded before the call; "
        "distinct = distinct (circuit, flag) descriptions"
        "; circuits with an odd node count carry type strings created at run time (equal, not identical, to the literals)")
BOUND = "exhaustive: <=2 inputs, <=1 constant, <=2 gates (quick) / <=3 gates (thorough); random: <=14 nodes"


def cases(tier, seed):
    ng = 2 if tier == "quick" else 3
    for n_in in (1, 2):
        for consts in ((), ("0",)):
            for n_g in range(0, ng + 1):
                if n_g == 3 and (n_in == 2 and consts):
                    continue
                for cd in gen.enum_circuits(n_in, n_g, gate_types=["and", "buf"], consts=consts, outputs="sinks"):
                    names = [n[0] for n in cd["nodes"]]
                    for r in range(0, len(names) + 1):
                        for mk in itertools.combinations(names, r):
                            if len(names) > 4 and r not in (0, 1, 2, len(names)):
                                continue
                            cd2 = dict(cd)
                            cd2["nodes"] = [[n, t, n in mk] for n, t, _ in cd["nodes"]]
                            for flag in (False, True):
                                yield {"c": cd2, "inputs": flag}
    rng = gen.rng_for(seed, "c16")
    n_rand = 300 if tier == "quick" else 6000
    for i in range(n_rand):
        nbb = rng.choice([0, 0, 1, 2])
        cd = gen.random_circuit(rng, n_in=rng.randint(1, 4), n_gates=rng.randint(1, 8), max_fanin=3,
                                p_const=0.3, n_bb=nbb, bb_clk=rng.random() < 0.5, p_out=0.15,
                                unconnected_pins=0.3, allow_input_output=rng.random() < 0.2)
        # un-mark some outputs so that dead logic exists
        for rec in cd["nodes"]:
            if rec[2] and rng.random() < 0.5:
                rec[2] = False
        yield {"c": cd, "inputs": (False if nbb else rng.random() < 0.5)}
    # histories on ONE object: a first call, then an edit that keeps the node / edge / output counts (an output mark
    # moves, an edge is re-routed), then the call under test
    for t in ("and", "or"):
        cd = {"name": "h", "nodes": [["a", "input", False], ["b", "input", False], ["g1", t, True], ["g2", "not", False], ["g3", "buf", True]],
              "edges": [["a", "g1"], ["b", "g1"], ["a", "g2"], ["g2", "g3"]], "bbs": {}}
        for flag in (False, True):
            yield {"c": cd, "inputs": flag, "pre": [["set_output", "g3", False], ["set_output", "g2", True], ["set_output", "g2", False], ["set_output", "a", True]]}
            yield {"c": cd, "inputs": flag, "pre": [["disconnect", "g2", "g3"], ["connect", "b", "g3"]]}


def run_case(case):
    c = circ.build(case["c"])
    if len(case["c"]["nodes"]) % 2:
        # type strings made at run time (as tokens from a parser are): equal to, not identical with, the library's literals
        for n_ in c.graph.nodes:
            t_ = c.graph.nodes[n_].get("type")
            if isinstance(t_, str):
                c.graph.nodes[n_]["type"] = "".join(list(t_))
    if case.get("pre"):
        c.remove_unloaded(inputs=case["inputs"])
        for op in case["pre"]:
            getattr(c, op[0])(*op[1:])
            c_probe = c.copy()
            c_probe.remove_unloaded(inputs=case["inputs"])  # (calls on copies must not matter either)
    flag = case["inputs"]
    g0 = c.graph.copy()
    ty = {n: g0.nodes[n].get("type") for n in g0}
    out = {n: bool(g0.nodes[n].get("output")) for n in g0}
    fails = []
    keep_roots = {n for n in g0 if out[n] or ty[n] == "bb_input"}
    live = set(keep_roots)
    for r in keep_roots:
        live |= nx.ancestors(g0, r)
    dead = set(g0) - live
    pins_inputs = {n for n in g0 if ty[n] in ("input", "bb_output", "bb_input")}
    expected = dead if flag else dead - pins_inputs
    nontrivial = bool(dead) or any(g0.out_degree(n) == 0 for n in g0)

    removed = c.remove_unloaded(inputs=flag)
    removed_l = list(removed)
    D = set(g0) - set(c.graph)
    if len(removed_l) != len(set(removed_l)) or set(removed_l) != D:
        fails.append({"kind": "return-mismatch", "msg": f"returned {removed_l} but deleted {sorted(D)}"})
    prot_hit = D & (pins_inputs if not flag else {n for n in g0 if ty[n] == "bb_input"})
    if prot_hit:
        fails.append({"kind": "deleted-protected", "msg": f"inputs={flag}: deleted protected node(s) {sorted(prot_hit)}"})
    if D & live:
        fails.append({"kind": "deleted-live", "msg": f"deleted live node(s) {sorted(D & live)}"})
    if (expected - D):
        fails.append({"kind": "missed-dead", "msg": f"dead node(s) left: {sorted(expected - D)}"})
    if (D - expected) - prot_hit - live:
        fails.append({"kind": "deleted-unexpected", "msg": f"{sorted(D - expected)}"})
    if set(c.graph) - set(g0):
        fails.append({"kind": "frame-new-nodes", "msg": str(sorted(set(c.graph) - set(g0)))})
    for n in c.graph:
        if n not in g0:
            continue
        if dict(c.graph.nodes[n]) != dict(g0.nodes[n]):
            fails.append({"kind": "frame-attrs", "msg": f"attributes of {n} changed"})
        if set(c.graph.predecessors(n)) != set(g0.predecessors(n)):
            fails.append({"kind": "frame-fanin", "msg": f"fan-in of surviving node {n} changed"})
    again = list(c.remove_unloaded(inputs=flag))
    if again:
        fails.append({"kind": "idempotence", "msg": f"second call removed {again}"})
    return {"nontrivial": nontrivial, "failures": fails}
