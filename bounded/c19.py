"""C19 bounded stand-in: no public function mutates or aliases its argument.

For each (function recipe, circuit): deep snapshot of every argument circuit
before/after the call (normal or exceptional exit); for every returned Circuit:
no shared graph / attribute dict / adjacency dict / registry object, and an edit
battery on the result must leave the argument unchanged and vice versa."""
import io as _io
import os
import tempfile
import contextlib

import networkx as nx

from vlib import circ, gen, spec, sem
import circuitgraph as cg

RULE = ("~70 call recipes (every function of tx, props, sat, io writers, utils.lint and the read-only Circuit "
        "methods, incl. argument shapes that raise) x seeded random lint-clean circuits of three classes "
        "(blackbox-free acyclic, with flop blackboxes, cyclic); non-trivial = the call returned (or raised) on a "
        "circuit with >=1 gate; distinct = distinct (recipe, circuit)"
        "; half of the flop circuits use a cell with two output pins (q, qn); the snapshot covers the pin sets of every registered BlackBox object")
BOUND = "circuits <= 12 nodes; 4/16 hash seeds"


def _first(xs):
    return sorted(xs)[0]


def _gate(c):
    gs = sorted(n for n in c.graph if c.graph.nodes[n]["type"] in gen.GATES and c.graph.in_degree(n) > 0)
    return gs[-1] if gs else sorted(c.graph)[0]


def _withcone(c):
    """a node having an input in its cone"""
    for n in sorted(c.graph, reverse=True):
        if c.startpoints(n) and c.graph.nodes[n]["type"] not in ("input", "bb_input", "bb_output"):
            return n
    return _first(c.inputs())


R = {}


def recipe(name, klass="comb"):
    def deco(f):
        R[name] = (klass, f)
        return f
    return deco


# ---- tx
recipe("tx.strip_io", "any")(lambda c: cg.tx.strip_io(c))
recipe("tx.strip_outputs", "any")(lambda c: cg.tx.strip_outputs(c))
recipe("tx.strip_inputs", "any")(lambda c: cg.tx.strip_inputs(c))
recipe("tx.strip_blackboxes", "bb")(lambda c: cg.tx.strip_blackboxes(c))
recipe("tx.strip_blackboxes[ignore]", "bb")(lambda c: cg.tx.strip_blackboxes(c, ignore_pins="clk"))
recipe("tx.relabel", "any")(lambda c: cg.tx.relabel(c, {_gate(c): "renamed_node"}))
recipe("tx.subcircuit", "comb")(lambda c: cg.tx.subcircuit(c, c.transitive_fanin(_gate(c)) | {_gate(c)}))
recipe("tx.subcircuit[modify_io]", "comb")(lambda c: cg.tx.subcircuit(c, [_gate(c)], modify_io=True))
recipe("tx.subcircuit[bb raises]", "bb")(lambda c: cg.tx.subcircuit(c, c.nodes()))
recipe("tx.ternary", "comb")(lambda c: cg.tx.ternary(c)[0])
recipe("tx.ternary[bb raises]", "bb")(lambda c: cg.tx.ternary(c))
recipe("tx.miter[self]", "comb")(lambda c: cg.tx.miter(c))
recipe("tx.miter[pair]", "comb")(lambda c: cg.tx.miter(c, c.copy()))
recipe("tx.miter[subsets]", "comb")(lambda c: cg.tx.miter(c, None, startpoints={_first(c.inputs())}, endpoints={_gate(c)}))
recipe("tx.miter[bb raises]", "bb")(lambda c: cg.tx.miter(c))
recipe("tx.unroll", "comb")(lambda c: cg.tx.unroll(c, 2, {})[0])
recipe("tx.unroll[state]", "comb")(lambda c: cg.tx.unroll(c, 2, {_gate(c): _first(c.inputs())} if c.is_output(_gate(c)) else {})[0])
recipe("tx.unroll[n=0 raises]", "comb")(lambda c: cg.tx.unroll(c, 0, {}))
recipe("tx.sequential_unroll", "bb")(lambda c: cg.tx.sequential_unroll(c, 2, "d", "q")[0])
recipe("tx.sequential_unroll[opts]", "bb")(lambda c: cg.tx.sequential_unroll(c, 2, "d", "q", add_flop_outputs=True, initial_values="0", remove_unloaded=False)[0])
recipe("tx.sequential_unroll[bad port raises]", "bb")(lambda c: cg.tx.sequential_unroll(c, 2, "nope", "q"))
recipe("tx.sensitization_transform", "comb")(lambda c: cg.tx.sensitization_transform(c, _withcone(c)))
recipe("tx.sensitization_transform[endpoints]", "comb")(
    lambda c: cg.tx.sensitization_transform(c, _first(c.inputs()), endpoints=sorted(c.transitive_fanout(_first(c.inputs())))[-1:]))
recipe("tx.sensitization_transform[endpoints=all sinks]", "comb")(
    lambda c: cg.tx.sensitization_transform(c, _first(c.inputs()), endpoints=[n for n in sorted(c.graph) if not c.fanout(n) and n in c.transitive_fanout(_first(c.inputs()))]))
recipe("tx.sensitization_transform[endpoints=one internal]", "comb")(
    lambda c: cg.tx.sensitization_transform(c, _first(c.startpoints(_gate(c))), endpoints=_gate(c)))
recipe("tx.sensitization_transform[not in fanin raises]", "comb")(lambda c: cg.tx.sensitization_transform(c, _gate(c), endpoints=[_first(c.inputs())]))
recipe("tx.sensitivity_transform", "comb")(lambda c: cg.tx.sensitivity_transform(c, _withcone(c)))
recipe("tx.limit_fanin", "any")(lambda c: cg.tx.limit_fanin(c, 2))
recipe("tx.limit_fanin[k=1 raises]", "any")(lambda c: cg.tx.limit_fanin(c, 1))
recipe("tx.limit_fanout", "any")(lambda c: cg.tx.limit_fanout(c, 2))
recipe("tx.acyclic_unroll", "comb")(lambda c: cg.tx.acyclic_unroll(c))
recipe("tx.acyclic_unroll[cyclic]", "cyc")(lambda c: cg.tx.acyclic_unroll(c))
recipe("tx.supergates", "comb")(lambda c: cg.tx.supergates(c))
recipe("tx.supergates[super]", "comb")(lambda c: cg.tx.supergates(c, construct_supercircuit=True))
recipe("tx.insert_registers", "comb")(lambda c: cg.tx.insert_registers(c, 1))
recipe("tx.syn[no yosys raises]", "comb")(lambda c: cg.tx.syn(c, suppress_output=True))
recipe("tx.aig[no yosys raises]", "comb")(lambda c: cg.tx.aig(c))
# ---- props
recipe("props.influence", "comb")(lambda c: cg.props.influence(c, _withcone(c), approx=False))
recipe("props.influence[supergates]", "comb")(lambda c: cg.props.influence(c, _withcone(c), supergates=True, approx=False))
recipe("props.avg_sensitivity", "comb")(lambda c: cg.props.avg_sensitivity(c, _withcone(c), approx=False))
recipe("props.sensitivity", "comb")(lambda c: cg.props.sensitivity(c, _withcone(c)))
recipe("props.sensitize", "comb")(lambda c: cg.props.sensitize(c, _withcone(c)))
recipe("props.signal_probability", "comb")(lambda c: cg.props.signal_probability(c, _withcone(c), approx=False))
recipe("props.signal_probability[approx]", "comb")(lambda c: cg.props.signal_probability(c, _withcone(c), approx=True))
recipe("props.levelize", "any")(lambda c: cg.props.levelize(c))
recipe("props.levelize[cyclic raises]", "cyc")(lambda c: cg.props.levelize(c))
# ---- sat
recipe("sat.cnf", "any")(lambda c: cg.sat.cnf(c))
recipe("sat.solve", "any")(lambda c: cg.sat.solve(c, {_gate(c): True}))
recipe("sat.solve[bad key raises]", "any")(lambda c: cg.sat.solve(c, {"no_such_node": True}))
recipe("sat.model_count", "any")(lambda c: cg.sat.model_count(c, {_gate(c): False}))
recipe("sat.approx_model_count", "any")(lambda c: cg.sat.approx_model_count(c, {_gate(c): True}))
recipe("sat.construct_solver", "any")(lambda c: cg.sat.construct_solver(c, {_gate(c): True}))
# ---- writers / lint
recipe("io.circuit_to_verilog", "any")(lambda c: cg.io.circuit_to_verilog(c))
recipe("io.circuit_to_verilog[behavioral]", "any")(lambda c: cg.io.circuit_to_verilog(c, behavioral=True))
recipe("io.circuit_to_verilog[twice]", "bb")(lambda c: (cg.io.circuit_to_verilog(c), cg.io.circuit_to_verilog(c)))
recipe("io.circuit_to_bench", "comb")(lambda c: cg.io.circuit_to_bench(c))
recipe("io.circuit_to_bench[bb raises]", "bb")(lambda c: cg.io.circuit_to_bench(c))


@recipe("io.to_file", "any")
def _to_file(c):
    d = tempfile.mkdtemp(prefix="verif_c19_")
    try:
        cg.to_file(c, os.path.join(d, "x.v"))
        if not c.blackboxes and c.inputs():
            cg.to_file(c, os.path.join(d, "x.bench"), fmt="bench")
        try:
            cg.to_file(c, os.path.join(d, "x.zz"), fmt="nope")
        except ValueError:
            pass
    finally:
        for f in os.listdir(d):
            os.unlink(os.path.join(d, f))
        os.rmdir(d)


recipe("utils.lint", "any")(lambda c: cg.lint(c))
recipe("utils.lint[all flags]", "any")(lambda c: cg.lint(c, fail_fast=False, unloaded=True, single_input_gates=True))
recipe("utils.visualize[no yosys raises]", "any")(lambda c: cg.utils.visualize(c, "/nonexistent/x.png"))


@recipe("Circuit.read_only_methods", "any")
def _readonly(c):
    n = _gate(c)
    i = _first(c.startpoints()) if c.startpoints() else n
    out = [c.copy(), c.type(n), c.type([n, i]), c.filter_type(["and", "input"]), c.nodes(), c.edges(), c.fanin(n),
           c.fanout([n, i]), c.transitive_fanin(n), c.transitive_fanout([i]), list(c.paths(i, n)), c.inputs(),
           c.is_output(n), c.outputs(), c.io(), c.startpoints(), c.startpoints(n), c.endpoints(), c.endpoints([i]),
           list(c.reconvergent_fanout_nodes()), c.has_reconvergent_fanout(), c.is_cyclic(), c.uid(n), c.uid("zz", blocked={"zz"}),
           n in c, len(c), list(c)]
    if not c.is_cyclic():
        out += [c.fanin_depth(n), c.fanout_depth([i]), c.fanin_depth(n, maximum=False), c.kcuts(n, 2), list(c.topo_sort())]
    for bad in ("no_such_node",):
        for f in (c.type, c.is_output, c.fanin, c.fanout, c.transitive_fanin):
            try:
                f(bad)
            except Exception:
                pass
    return out[0]


def cases(tier, seed):
    rng = gen.rng_for(seed, "c19")
    n = 14 if tier == "quick" else 250
    circuits = {"comb": [], "bb": [], "cyc": []}
    for i in range(n):
        circuits["comb"].append(gen.random_circuit(rng, n_in=rng.randint(2, 3), n_gates=rng.randint(2, 6), max_fanin=3,
                                                   p_const=0.2, p_out=0.3, allow_input_output=rng.random() < 0.2))
        circuits["bb"].append(gen.random_circuit(rng, n_in=rng.randint(2, 3), n_gates=rng.randint(2, 5), max_fanin=3,
                                                 n_bb=rng.randint(1, 2), bb_clk=True, bb_qn=(i % 2 == 1), p_out=0.3))
        circuits["cyc"].append(gen.random_circuit(rng, n_in=rng.randint(1, 3), n_gates=rng.randint(3, 6), max_fanin=3,
                                                  cyclic=rng.randint(1, 2), p_out=0.3))
    # hand-made shapes that exercise the delicate sites: chain whose last gate's cone is the whole circuit,
    # an internal output feeding the final output
    chain = {"name": "chain", "nodes": [["a", "input", False], ["b", "input", False], ["m", "and", True], ["o", "or", True]],
             "edges": [["a", "m"], ["b", "m"], ["m", "o"], ["a", "o"]], "bbs": {}}
    circuits["comb"].append(chain)
    for name, (klass, _) in sorted(R.items()):
        pools = ["comb", "bb", "cyc"] if klass == "any" else [klass]
        for k in pools:
            for cd in circuits[k]:
                yield {"recipe": name, "c": cd}


def _alias_problems(arg, res):
    probs = []
    if res.graph is arg.graph:
        probs.append("result.graph is the argument's graph object")
    if res.blackboxes is arg.blackboxes and (arg.blackboxes or res.blackboxes):
        probs.append("result.blackboxes is the argument's dict")
    for n in res.graph.nodes:
        if n in arg.graph.nodes:
            if res.graph.nodes[n] is arg.graph.nodes[n]:
                probs.append(f"attribute dict of node {n!r} is shared")
                break
            if res.graph._adj[n] is arg.graph._adj[n] or res.graph._pred[n] is arg.graph._pred[n]:
                probs.append(f"adjacency dict of node {n!r} is shared")
                break
    return probs


def _edit_battery(target):
    """mutate a circuit in every way C19 names"""
    g = target.graph
    nodes = sorted(g.nodes, key=repr)
    if nodes:
        g.nodes[nodes[0]]["type"] = "xnor"
        g.nodes[nodes[0]]["output"] = not g.nodes[nodes[0]].get("output", False)
        g.nodes[nodes[-1]]["scratch_attr"] = 1
    g.add_node("__edit_new_node", type="buf", output=True)
    if nodes:
        g.add_edge(nodes[0], "__edit_new_node")
        g.add_edge("__edit_new_node", nodes[-1])
    edges = sorted(g.edges, key=repr)
    if edges:
        g.remove_edge(*edges[0])
    if len(nodes) > 1:
        g.remove_node(nodes[1])
    target.blackboxes["__edit_bb"] = circ.blackbox("e", ["x"], ["y"])
    for k in sorted(target.blackboxes):
        if k != "__edit_bb":
            del target.blackboxes[k]
            break
    target.name = str(target.name) + "_edited"


def run_case(case):
    klass, fn = R[case["recipe"]]
    c = circ.build(case["c"])
    if not spec.lintclean(c):
        return {"nontrivial": False, "failures": []}
    fails = []
    snap = circ.snapshot(c)
    outcome = "returned"
    res = None
    with contextlib.redirect_stdout(_io.StringIO()):
        try:
            res = fn(c)
        except Exception as ex:  # the frame condition covers exceptional exits too
            outcome = "raised " + type(ex).__name__
    if circ.snapshot(c) != snap:
        fails.append({"kind": "argument-mutated:" + case["recipe"].split("[")[0], "msg": f"{case['recipe']} ({outcome}) changed its argument"})
        return {"nontrivial": True, "failures": fails}
    results = []

    def collect(x, depth=0):
        if isinstance(x, cg.Circuit):
            results.append(x)
        elif isinstance(x, (list, tuple, set)) and depth < 3:
            for y in x:
                collect(y, depth + 1)
        elif isinstance(x, dict) and depth < 3:
            for y in x.values():
                collect(y, depth + 1)
    collect(res)
    for r in results:
        if r is c:
            fails.append({"kind": "returns-argument-itself:" + case["recipe"].split("[")[0], "msg": case["recipe"]})
            continue
        pr = _alias_problems(c, r)
        if pr:
            fails.append({"kind": "aliasing:" + case["recipe"].split("[")[0], "msg": f"{case['recipe']}: {pr[0]}"})
            continue
        rs = circ.snapshot(r)
        c2 = circ.build(case["c"])  # fresh twin to compare after editing
        _edit_battery(r)
        if circ.snapshot(c) != snap:
            fails.append({"kind": "edit-of-result-changes-argument:" + case["recipe"].split("[")[0], "msg": case["recipe"]})
            break
    if results and not fails:
        # and the other direction: edit the argument, results must not move
        fresh = fn(circ.build(case["c"])) if False else None
        r_snaps = [circ.snapshot(r) for r in results]
        _edit_battery(c)
        for r, s in zip(results, r_snaps):
            if circ.snapshot(r) != s:
                fails.append({"kind": "edit-of-argument-changes-result:" + case["recipe"].split("[")[0], "msg": case["recipe"]})
                break
    has_gate = any(r[1] in gen.GATES for r in case["c"]["nodes"])
    return {"nontrivial": has_gate, "failures": fails}
