"""C10 bounded stand-in: tx.ternary vs gate-by-gate Kleene evaluation."""
import itertools

from vlib import circ, gen, oracle, spec, sem
import circuitgraph as cg

RULE = ("every circuit with <=2 inputs, optional constant and <=2 gates over all 8 types; one gate of each type at "
        "arity 1..4 fed by inputs and constants; seeded random lint-clean acyclic blackbox-free circuits (<=4 inputs, "
        "constants, shared fan-in between and-/or-family gates, encoder-like names); all 3^|inputs| ternary patterns "
        "x both binary values under every X; non-trivial = circuit has a multi-input gate"
        "; plus: names derived from / colliding between the library's own naming templates, shuffled node insertion order; a transform exception or a cyclic result is a failure")
BOUND = "circuits <= 12 nodes, <= 4 inputs (81 patterns x <=16 fillings); 4/16 hash seeds"


# names of which one is a prefix of another, with a next character sorting before / after "_"
PREFIX_NAMES = ["n1", "n10", "n1_0", "d", "dA", "d0", "d_0", "a", "a0", "aZ", "a_", "x9", "x", "x90", "q", "q_q", "qq"]


def cases(tier, seed):
    rng = gen.rng_for(seed, "c10")
    for consts in ((), ("0",), ("1",)):
        for n_g in (1, 2):
            for i, cd in enumerate(gen.enum_circuits(2, n_g, consts=consts)):
                if n_g == 2 and i % (15 if tier == "quick" else 2):
                    continue
                yield {"c": cd}
    for t in gen.MULTI:
        for ar in (1, 2, 3, 4):
            for const in (None, "0", "1"):
                nodes = [[f"i{j}", "input", False] for j in range(min(ar, 3))]
                srcs = [n[0] for n in nodes]
                if const:
                    nodes.append(["k", const, False])
                    srcs.append("k")
                if ar == 4 and not const:
                    nodes.append(["i3", "input", False])
                    srcs.append("i3")
                nodes.append(["g", t, True])
                yield {"c": {"name": "one", "nodes": nodes, "edges": [[s, "g"] for s in srcs], "bbs": {}}}
    # two gates whose fan-in NAME sets join to the same text ({a_b, c} and {a, b_c}) or are prefixes of each other
    for t1, t2 in itertools.product(["and", "or", "nand", "nor"], repeat=2):
        for (f1, f2) in ((["a_b", "c"], ["a", "b_c"]), (["a_sel", "b"], ["a", "sel_b"]), (["n1", "n10"], ["n1", "n1_0"])):
            ins = sorted(set(f1) | set(f2))
            nodes = [[i_, "input", False] for i_ in ins] + [["g1", t1, True], ["g2", t2, True]]
            edges = [[f, "g1"] for f in f1] + [[f, "g2"] for f in f2]
            yield {"c": {"name": "join", "nodes": nodes, "edges": edges, "bbs": {}}}
    for i in range(150 if tier == "quick" else 3000):
        cd = gen.random_circuit(rng, n_in=rng.randint(1, 4), n_gates=rng.randint(2, 7), max_fanin=rng.choice([2, 3, 4]),
                                p_const=0.4, p_out=0.3, names=(gen.NASTY_NAMES if rng.random() < 0.25 else
                                                                (PREFIX_NAMES if rng.random() < 0.2 else None)))
        if rng.random() < 0.25:
            cd = gen.adversarial_rename(cd, rng)  # names the transform itself would derive from other nodes
        if rng.random() < 0.3:
            cd = gen.shuffle_nodes(cd, rng)  # node insertion order decides iteration order inside the library
        yield {"c": cd}


def run_case(case):
    c = circ.build(case["c"])
    if not spec.lintclean(c) or c.blackboxes or not sem.is_dag(c):
        return {"nontrivial": False, "failures": []}
    fails = []
    snap = circ.snapshot(c)
    res, bad = gen.guarded("ternary", lambda: cg.tx.ternary(c), list(c.graph.nodes))
    if bad == "skip":
        return {"nontrivial": False, "failures": []}
    if bad:
        return {"nontrivial": True, "failures": [bad]}
    t, mapping = res
    nodes = sorted(c.graph.nodes)
    if set(mapping) != set(nodes):
        fails.append({"kind": "ternary-mapping-domain", "msg": f"{sorted(mapping)}"})
        return {"nontrivial": True, "failures": fails}
    if len(set(mapping.values())) != len(nodes) or set(mapping.values()) & set(nodes):
        fails.append({"kind": "ternary-mapping-not-fresh-injective", "msg": str(mapping)})
    for n in nodes:
        if n not in t.graph or t.graph.nodes[n].get("type") != c.graph.nodes[n].get("type") or \
                set(t.graph.predecessors(n)) != set(c.graph.predecessors(n)):
            fails.append({"kind": "ternary-original-node-changed", "msg": f"node {n}"})
            break
    if fails:
        return {"nontrivial": True, "failures": fails}
    if sem.is_dag(c) and not sem.is_dag(t):
        return {"nontrivial": True, "failures": [{"kind": "ternary-result-cyclic", "msg": "the ternary circuit of an acyclic circuit has a cycle"}]}
    ins = sorted(n for n in nodes if c.graph.nodes[n]["type"] == "input")
    want_free = set(ins) | {mapping[i] for i in ins}
    try:
        free = set(oracle.free_nodes(t))
    except oracle.OracleError as e:
        return {"nontrivial": True, "failures": fails + [{"kind": "ternary-result-has-x", "msg": str(e)}]}
    if free != want_free:
        fails.append({"kind": "ternary-free-signals", "msg": f"free nodes of result {sorted(free)} expected {sorted(want_free)}"})
        return {"nontrivial": True, "failures": fails}
    lv = spec.lint_violations(t)
    if lv:
        fails.append({"kind": "ternary-result-not-lintclean", "msg": str(lv[:3])})
    for pat in itertools.product((False, True, oracle.X), repeat=len(ins)):
        K = oracle.kleene(c, dict(zip(ins, pat)))
        xs = [i for i, p in zip(ins, pat) if p == oracle.X]
        for fill in itertools.product((False, True), repeat=len(xs)):
            asg = {}
            fl = dict(zip(xs, fill))
            for i, p in zip(ins, pat):
                asg[i] = fl[i] if p == oracle.X else p
                asg[mapping[i]] = (p == oracle.X)
            v = oracle.simulate(t, asg)
            for n in nodes:
                isx = K[n] == oracle.X
                if v[mapping[n]] != isx:
                    fails.append({"kind": "ternary-x-flag-wrong", "msg": f"node {n} ({c.graph.nodes[n]['type']}): mapping={v[mapping[n]]} Kleene={K[n]} pattern={dict(zip(ins, pat))} fill={fl}"})
                    break
                if not isx and v[n] != K[n]:
                    fails.append({"kind": "ternary-binary-value-wrong", "msg": f"node {n}: {v[n]} Kleene={K[n]} pattern={dict(zip(ins, pat))}"})
                    break
            if fails:
                break
        if fails:
            break
    if circ.snapshot(c) != snap:
        fails.append({"kind": "argument-mutated", "msg": "ternary changed its argument"})
    multi = any(c.graph.nodes[n]["type"] in gen.MULTI for n in nodes)
    return {"nontrivial": multi, "failures": fails}
