"""C05 bounded stand-in: limit_fanin / limit_fanout / insert_registers /
acyclic_unroll(acyclic) contracts on the real functions."""
import networkx as nx

from vlib import circ, gen, oracle, sem, spec
import circuitgraph as cg

RULE = ("single gates of every type at fan-in 1..6 (limit_fanin) and nodes with 1..6 loads (limit_fanout), "
        "k in 2..5; every circuit with <=2 inputs and <=2 gates; seeded random lint-clean circuits (acyclic "
        "and cyclic, constants, flops for the limit_* functions); insert_registers for num_stages 1..3 when "
        "a stage boundary exists; acyclic_unroll on acyclic blackbox-free circuits; non-trivial = the "
        "transform changed the graph (or, for acyclic_unroll, the circuit has a gate)"
        "; plus: names derived from the library's own naming templates, shuffled node insertion order; a transform exception is a failure")
BOUND = "circuits <= 16 nodes, <= 10 free signals; k in 2..5; num_stages 1..3; 4/16 hash seeds"


def cases(tier, seed):
    rng = gen.rng_for(seed, "c05")
    # one gate of every type at every arity 1..6
    for t in gen.MULTI:
        for ar in range(1, 7):
            nodes = [[f"i{j}", "input", False] for j in range(ar)] + [["g", t, True]]
            edges = [[f"i{j}", "g"] for j in range(ar)]
            cd = {"name": "g1", "nodes": nodes, "edges": edges, "bbs": {}}
            for k in (2, 3, 4, 5):
                yield {"f": "limit_fanin", "c": cd, "k": k}
    # one driver with 1..6 loads of mixed types
    for nl in range(1, 7):
        nodes = [["i0", "input", False], ["i1", "input", False], ["d", "and", False]]
        edges = [["i0", "d"], ["i1", "d"]]
        for j in range(nl):
            t = ["buf", "not", "and", "xor", "nor", "or"][j % 6]
            nodes.append([f"l{j}", t, True])
            edges.append(["d", f"l{j}"])
            if t not in ("buf", "not"):
                edges.append(["i0", f"l{j}"])
        cd = {"name": "fo", "nodes": nodes, "edges": edges, "bbs": {}}
        for k in (2, 3, 4, 5):
            yield {"f": "limit_fanout", "c": cd, "k": k}
    for n_in, n_g in ((2, 1), (2, 2)):
        for i, cd in enumerate(gen.enum_circuits(n_in, n_g)):
            if tier == "quick" and n_g == 2 and i % 5:
                continue
            yield {"f": "limit_fanin", "c": cd, "k": 2}
            yield {"f": "limit_fanout", "c": cd, "k": 2}
            yield {"f": "acyclic_unroll", "c": cd}
    n_rand = 150 if tier == "quick" else 3000
    # acyclic circuits in which an output is named like the copy name acyclic_unroll derives for another node (c0_x next to x)
    for t in ("and", "or", "xor"):
        for nm in ("c0_x", "c1_x", "aux_in_x", "acyc_x"):
            cd = {"name": "pre", "nodes": [["a", "input", False], ["b", "input", False], ["x", t, False], [nm, "not", True], ["y", "buf", True]],
                  "edges": [["a", "x"], ["b", "x"], ["x", nm], ["x", "y"]], "bbs": {}}
            yield {"f": "acyclic_unroll", "c": cd}
    for i in range(n_rand):
        nasty = rng.random() < 0.3
        cd = gen.random_circuit(rng, n_in=rng.randint(2, 5), n_gates=rng.randint(2, 7), max_fanin=rng.choice([3, 5, 6]),
                                p_const=0.2, n_bb=rng.choice([0, 0, 1]), cyclic=rng.choice([0, 0, 1]), p_out=0.3,
                                names=(gen.NASTY_NAMES if nasty else None))
        if rng.random() < 0.25:
            cd = gen.adversarial_rename(cd, rng)  # names the transform itself would derive from other nodes
        if rng.random() < 0.3:
            cd = gen.shuffle_nodes(cd, rng)  # node insertion order decides iteration order inside the library
        yield {"f": "limit_fanin", "c": cd, "k": rng.randint(2, 4)}
        yield {"f": "limit_fanout", "c": cd, "k": rng.randint(2, 3)}
        cd2 = gen.random_circuit(rng, n_in=rng.randint(1, 4), n_gates=rng.randint(2, 8), max_fanin=3, p_const=0.2,
                                 p_out=0.3, allow_input_output=rng.random() < 0.2)
        yield {"f": "acyclic_unroll", "c": cd2}
        yield {"f": "insert_registers", "c": cd2, "stages": rng.randint(1, 3)}
        if rng.random() < 0.5:
            cd3 = gen.adversarial_rename(cd2, rng)   # e.g. an output named c0_<n> next to a node <n>
            yield {"f": "acyclic_unroll", "c": cd3}
            yield {"f": "insert_registers", "c": cd3, "stages": rng.randint(1, 3)}


def _transparent(c_reg):
    """Replace every inserted flop by a wire from its d pin to its q pin."""
    c = circ.build(circ.describe(c_reg))
    g = c.graph
    for inst in list(c.blackboxes):
        d, q = f"{inst}.d", f"{inst}.q"
        drivers = list(g.predecessors(d))
        loads = list(g.successors(q))
        for p in list(c.blackboxes[inst].inputs()) + list(c.blackboxes[inst].outputs()):
            g.remove_node(f"{inst}.{p}")
        for u in drivers:
            for v in loads:
                g.add_edge(u, v)
        del c.blackboxes[inst]
    return c


def run_case(case):
    c = circ.build(case["c"])
    if not spec.lintclean(c):
        return {"nontrivial": False, "failures": []}
    f = case["f"]
    fails = []
    snap = circ.snapshot(c)
    g0 = c.graph
    if f in ("limit_fanin", "limit_fanout"):
        k = case["k"]
        r, bad_ = gen.guarded(f, lambda: getattr(cg.tx, f)(c, k), list(g0.nodes))
        if bad_ == "skip":
            return {"nontrivial": False, "failures": []}
        if bad_:
            return {"nontrivial": True, "failures": [bad_]}
        if r.inputs() != c.inputs() or r.outputs() != c.outputs():
            fails.append({"kind": f + "-io-changed", "msg": f"inputs {sorted(r.inputs())} outputs {sorted(r.outputs())}"})
        if f == "limit_fanin":
            bad = [n for n in r.graph if r.graph.in_degree(n) > k]
        else:
            bad = [n for n in r.graph if r.graph.out_degree(n) > k]
        if bad:
            fails.append({"kind": f + "-bound-exceeded", "msg": f"k={k}: {bad}"})
        for n in g0:
            if n not in r.graph or r.graph.nodes[n].get("type") != g0.nodes[n].get("type"):
                fails.append({"kind": f + "-original-node-retyped", "msg": str(n)})
                break
        try:
            ok, why = sem.refines(r, c)
        except oracle.OracleError:
            ok, why = True, None
        if not ok:
            tys = sorted({g0.nodes[n]["type"] for n in g0 if g0.in_degree(n) > k}) if f == "limit_fanin" else []
            fails.append({"kind": f + "-function-changed", "msg": f"k={k} regrouped types={tys}: {why}"})
        lv = spec.lint_violations(r)
        if lv:
            fails.append({"kind": f + "-result-not-lintclean", "msg": str(lv[:3])})
        nontrivial = circ.describe(r)["edges"] != circ.describe(c)["edges"]
    elif f == "acyclic_unroll":
        if c.blackboxes or not sem.is_dag(c):
            return {"nontrivial": False, "failures": []}
        io_overlap = c.inputs() & c.outputs()
        try:
            r = cg.tx.acyclic_unroll(c)
        except ValueError as e:
            if ("already in circuit" in str(e) or "overlap" in str(e)) and any(gen.looks_derived(x) for x in g0):
                return {"nontrivial": False, "failures": []}   # a stated rejection: a name of the circuit clashes with a derived name
            kind = "acyclic_unroll-raises-on-output-that-is-input" if io_overlap else "acyclic_unroll-raises"
            return {"nontrivial": True, "failures": [{"kind": kind, "msg": repr(e)}]}
        if r.inputs() != c.inputs() or r.outputs() != c.outputs():
            fails.append({"kind": "acyclic_unroll-io-changed", "msg": f"{sorted(r.inputs())} / {sorted(r.outputs())}"})
        else:
            ok, why = sem.same_functions(r, c, sorted(c.outputs()))
            if not ok:
                fails.append({"kind": "acyclic_unroll-function-changed", "msg": why})
        nontrivial = len(g0) > len(c.inputs())
    elif f == "insert_registers":
        if c.blackboxes or not sem.is_dag(c):
            return {"nontrivial": False, "failures": []}
        stages = case["stages"]
        depth = max(oracle.longest_from_source(g0, [n]) for n in g0)
        inc = round(depth / (stages + 1))
        if inc < 1 or not list(range(inc, depth, inc)):
            return {"nontrivial": False, "failures": []}
        r, bad_ = gen.guarded("insert_registers", lambda: cg.tx.insert_registers(c, stages), list(g0.nodes))
        if bad_ == "skip":
            return {"nontrivial": False, "failures": []}
        if bad_:
            return {"nontrivial": True, "failures": [bad_]}
        nontrivial = bool(r.blackboxes)
        t = _transparent(r)
        if not set(g0) <= set(t.graph):
            fails.append({"kind": "insert_registers-node-lost", "msg": str(sorted(set(g0) - set(t.graph)))})
        else:
            ok, why = sem.same_functions(t, c, sorted(g0))
            if not ok:
                fails.append({"kind": "insert_registers-function-changed", "msg": why})
        if r.outputs() != c.outputs() or not c.inputs() <= r.inputs():
            fails.append({"kind": "insert_registers-io-changed", "msg": f"{sorted(r.inputs())} / {sorted(r.outputs())}"})
        lv = spec.lint_violations(r)
        if lv:
            fails.append({"kind": "insert_registers-result-not-lintclean", "msg": str(lv[:3])})
    if circ.snapshot(c) != snap:
        fails.append({"kind": "argument-mutated", "msg": f"{f} changed its argument"})
    return {"nontrivial": nontrivial, "failures": fails}
