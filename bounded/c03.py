"""C03 bounded stand-in: circuit_to_verilog -> verilog_to_circuit round trip."""
import os
import re
import tempfile

from vlib import circ, gen, oracle, spec, sem
import circuitgraph as cg

RULE = ("every 2-input <=2-gate circuit (sampled) and seeded random lint-clean circuits: all gate types, constants, "
        "outputs that are inputs or constants, flop blackboxes with connected / unconnected output pins and "
        "unconnected input pins, escaped identifiers, synthetic-looking names; both writer styles; a sample also "
        "through to_file/from_file; io, registry, per-pin nets, function at every output and bb_input pin (all "
        "valuations), and graph identity when there are no constants and behavioral=False; non-trivial = circuit "
        "has a gate"
        "; plus: nets named tie_hi/tie_lo/tie_a (gate or constant), a non-output constant driving a blackbox input pin"
        "; file suffixes .v/.bench/.txt/none/.V with the explicit fmt; io and gates named like the reader's scratch nodes for the expressions the writer emits (or_a_b, or_b_a, ...)")
BOUND = "circuits <= 14 nodes, <= 9 free signals; 4/16 hash seeds"
ESC = ["\\a[0]", "\\b[1]", "\\n$1", "\\w-x", "\\sel", "\\en_1"]   # the last two: escaped although they would not need it
SYN_RE = re.compile(r"^(and|or|xor|xnor|not|mux_n|mux_a0|mux_a1|mux_o)_")


def cases(tier, seed):
    rng = gen.rng_for(seed, "c03")
    for n_g in (1, 2):
        for i, cd in enumerate(gen.enum_circuits(2, n_g, outputs="each")):
            if i % ((5 if n_g == 1 else 300) if tier == "quick" else 12):
                continue
            for beh in (False, True):
                yield {"c": cd, "beh": beh, "file": False}
    # ordinary nets whose names only START like the reader's internal constants (tie_hi, tie_lo, tie_a)
    for nm in ("tie_hi", "tie_lo", "tie_a"):
        for t in ("and", "1", "0", "nor"):
            fis = [] if t in ("0", "1") else ["a", "b"]
            cd = {"name": "c", "nodes": [["a", "input", False], ["b", "input", False], [nm, t, rng.random() < 0.5], ["y", "or", True]],
                  "edges": [[f, nm] for f in fis] + [[nm, "y"], ["a", "y"]], "bbs": {}}
            for beh in (False, True):
                yield {"c": cd, "beh": beh, "file": False}
    # the same file path written twice with different circuits of equally long text (and / xor / nor ...)
    for t0, t1 in (("and", "xor"), ("nor", "xor"), ("or", "or")):
        mk = lambda t: {"name": "c", "nodes": [["a", "input", False], ["b", "input", False], ["y", t, True]], "edges": [["a", "y"], ["b", "y"]], "bbs": {}}
        yield {"c": mk(t1), "beh": False, "file": True, "before": mk(t0)}
    # file names whose suffix says nothing or something else: the explicit fmt decides
    for ext in (".bench", ".txt", "", ".V"):
        yield {"c": mk("nand"), "beh": False, "file": True, "ext": ext}
        yield {"c": mk("xor"), "beh": True, "file": True, "ext": ext, "before": mk("and")}
    # io named like the scratch nodes the reader makes for the very expressions the writer emits
    for op in ("and", "or", "xor"):
        for extra_t in ("input", "buf"):
            n1, n2 = f"{op}_a_b", f"{op}_b_a"
            nodes = [["a", "input", False], ["b", "input", False], ["y", op, True], ["z", "and", True]]
            edges = [["a", "y"], ["b", "y"], [n1, "z"], [n2, "z"]]
            if extra_t == "input":
                nodes += [[n1, "input", False], [n2, "input", False]]
            else:
                nodes += [[n1, "buf", False], [n2, "not", False]]
                edges += [["a", n1], ["b", n2]]
            for beh in (False, True):
                yield {"c": {"name": "c", "nodes": nodes, "edges": edges, "bbs": {}}, "beh": beh, "file": False}
    # a constant that is not an output and drives a blackbox input pin (both writer styles)
    for k in ("0", "1"):
        cd = {"name": "c", "nodes": [["a", "input", False], ["rst_off", k, False], ["u.d", "bb_input", False], ["u.r", "bb_input", False],
                                     ["u.q", "bb_output", False], ["y", "buf", True]],
              "edges": [["a", "u.d"], ["rst_off", "u.r"], ["u.q", "y"]], "bbs": {"u": ["ffr", ["d", "r"], ["q"]]}}
        for beh in (False, True):
            yield {"c": cd, "beh": beh, "file": False}
    for i in range(200 if tier == "quick" else 4000):
        names = None
        r = rng.random()
        if r < 0.2:
            names = ESC + [f"n{k}" for k in range(20)]
        elif r < 0.35:
            names = [n for n in gen.NASTY_NAMES if not n.startswith("tie")]
        cd = gen.random_circuit(rng, n_in=rng.randint(1, 4), n_gates=rng.randint(1, 7), max_fanin=rng.choice([2, 3, 4]),
                                p_const=0.3, n_bb=rng.choice([0, 0, 1, 2]), bb_clk=rng.random() < 0.4, p_out=0.3,
                                allow_input_output=rng.random() < 0.3, unconnected_pins=0.25,
                                unconnected_in=rng.choice([0.0, 0.0, 0.3]), names=names, name=rng.choice(["c", "top_1", "m2"]))
        if rng.random() < 0.2:
            for rec in cd["nodes"]:
                if rec[1] in ("0", "1"):
                    rec[2] = True
        yield {"c": cd, "beh": rng.random() < 0.5, "file": rng.random() < 0.15, "ext": rng.choice([".v", ".v", ".bench", ".txt", ""])}


def run_case(case):
    c = circ.build(case["c"])
    beh = case["beh"]
    if spec.lint_violations(c, undriven=False):
        return {"nontrivial": False, "failures": []}
    g = c.graph
    if any(g.nodes[n]["type"] == "x" for n in g):
        return {"nontrivial": False, "failures": []}
    fails = []
    names = list(g.nodes)
    # D11 is about a net the reader DEFINES (by its own assign) after an expression made a scratch node of that name;
    # primary inputs exist before any expression is read, so a synthetic-looking input name does not make a case D11
    synthetic = beh and any(SYN_RE.match(n) and g.nodes[n]["type"] != "input" for n in names)
    tag = "[net-named-like-synthetic-gate]" if synthetic else ""

    def fail(kind, msg):
        fails.append({"kind": kind + tag, "msg": msg})

    snap = circ.snapshot(c)
    bbtypes = list({id(b): b for b in c.blackboxes.values()}.values())
    try:
        if case["file"]:
            d = tempfile.mkdtemp(prefix="verif_c03_")
            try:
                ext = case.get("ext", ".v")
                how = {} if ext == ".v" else {"fmt": "verilog"}
                path = os.path.join(d, f"{c.name}{ext}")
                if case.get("before") is not None:
                    # another circuit was written to and read from this very path a moment ago
                    cg.to_file(circ.build(case["before"]), path, behavioral=beh)
                    cg.from_file(path, blackboxes=bbtypes, **how)
                cg.to_file(c, path, behavioral=beh)
                text = open(path).read()
                r = cg.from_file(path, blackboxes=bbtypes, **how)
            finally:
                for f in os.listdir(d):
                    os.unlink(os.path.join(d, f))
                os.rmdir(d)
        else:
            text = cg.io.circuit_to_verilog(c, behavioral=beh)
            r = cg.io.verilog_to_circuit(text, c.name, blackboxes=bbtypes)
    except Exception as ex:
        fail("roundtrip-raises-" + type(ex).__name__, repr(ex)[:300])
        return {"nontrivial": True, "failures": fails}
    if circ.snapshot(c) != snap:
        fails.append({"kind": "argument-mutated", "msg": "the writer changed its argument"})
    if r.name != c.name:
        fail("name-differs", f"{r.name!r} vs {c.name!r}")
    if r.inputs() != c.inputs() or r.outputs() != c.outputs():
        fail("io-differs", f"inputs {sorted(r.inputs())} vs {sorted(c.inputs())}; outputs {sorted(r.outputs())} vs {sorted(c.outputs())}\n{text}")
        return {"nontrivial": True, "failures": fails}
    if {k: b.name for k, b in r.blackboxes.items()} != {k: b.name for k, b in c.blackboxes.items()}:
        fail("blackbox-instances-differ", f"{sorted(r.blackboxes)} vs {sorted(c.blackboxes)}")
        return {"nontrivial": True, "failures": fails}
    for inst, b in c.blackboxes.items():
        for p in b.inputs():
            pn = f"{inst}.{p}"
            if pn not in r.graph or set(r.graph.predecessors(pn)) != set(g.predecessors(pn)):
                fail("blackbox-pin-net-differs", f"{pn}: {sorted(r.graph.predecessors(pn)) if pn in r.graph else None} vs {sorted(g.predecessors(pn))}")
        for p in b.outputs():
            pn = f"{inst}.{p}"
            if pn not in r.graph or set(r.graph.successors(pn)) != set(g.successors(pn)):
                fail("blackbox-pin-net-differs", f"{pn}: {sorted(r.graph.successors(pn)) if pn in r.graph else None} vs {sorted(g.successors(pn))}")
    if fails:
        return {"nontrivial": True, "failures": fails}
    has_const = any(g.nodes[n]["type"] in ("0", "1") for n in g)
    if not has_const and not beh:
        if not circ.same_structure(c, r):
            fail("graph-not-identical", f"{circ.describe(r)} vs {circ.describe(c)}\n{text}")
    watch = sorted(set(c.outputs()) | {n for n in g if g.nodes[n]["type"] == "bb_input" and g.in_degree(n)})
    if sem.is_dag(c):
        fc, fr = set(oracle.free_nodes(c)), set(oracle.free_nodes(r))
        if fc != fr:
            fail("free-signals-differ", f"{sorted(fr)} vs {sorted(fc)}\n{text}")
        elif not sem.is_dag(r):
            fail("function-differs", f"the circuit read back is cyclic, the original is not\n{text}")
        elif len(fc) <= 10:
            for a in oracle.all_input_vectors(sorted(fc)):
                vc, vr = oracle.simulate(c, a), oracle.simulate(r, a)
                bad = [n for n in watch if vc[n] != vr[n]]
                if bad:
                    fail("function-differs", f"{bad} under {a}\n{text}")
                    break
    else:
        try:
            ok, why = sem.refines(r, c, nodes=watch + sorted(oracle.free_nodes(c)))
            if not ok:
                fail("function-differs", why + "\n" + text)
        except oracle.OracleError:
            pass
    has_gate = any(g.nodes[n]["type"] in gen.GATES for n in g)
    return {"nontrivial": has_gate, "failures": fails}
