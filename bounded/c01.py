"""C01 bounded stand-in: contract of sat.cnf / sat.solve evaluated on the real
functions against the independent oracle (vlib.oracle), incl. aliasing names."""
import itertools

from vlib import circ, gen, oracle, spec
import circuitgraph as cg

RULE = ("(a) every circuit with <=2 inputs, optional constant, <=2 gates over all 8 gate types; (b) an "
        "'aliasing' family: 3/4-input xor/xnor gates over operands {a,b,c,a_b,b_c} together with nodes "
        "named like every auxiliary variable the encoder could build (xor_<p>_<q>, xor_inv_<g>); (c) "
        "seeded random lint-clean circuits (cyclic ones included, flop blackboxes, constants, fan-in 1..5) "
        "with names drawn from a universe of encoder-like names; each x partial assignments over <=3 "
        "nodes; non-trivial = circuit has a gate and the oracle enumerated its consistent valuations"
        "; plus: every f-string name template of the current library source instantiated with a gate of every type (a node named like something derived from gate g), and solve / edit-in-place / solve histories on one circuit object")
BOUND = "circuits <= 14 nodes, <= 12 free signals; assignments over <= 3 nodes; 4/16 hash seeds"


def _assignments(rng, names, k):
    out = [{}]
    for _ in range(k):
        m = rng.randint(1, min(3, len(names)))
        ns = rng.sample(sorted(names), m)
        out.append({n: rng.random() < 0.5 for n in ns})
    return out


def alias_family():
    """xor/xnor gates with >=3 operands plus ONE node named like an auxiliary variable the encoder could
    build for an ordered operand pair (all ordered pairs are enumerated, so every chain order is hit)."""
    ops = ["a", "b", "c", "a_b", "b_c"]
    for t in ("xor", "xnor"):
        for k in (3, 4):
            for fis in itertools.combinations(ops, k):
                extras = [f"xor_{p}_{q}" for p, q in itertools.permutations(fis, 2)]
                if k == 4:
                    extras = extras[::2]
                extras.append("xor_inv_g")
                for e in extras:
                    if e in fis:
                        continue
                    nodes = [[o, "input", False] for o in fis] + [["g", t, True], [e, "input", False], ["h", "and", True]]
                    edges = [[f, "g"] for f in fis] + [[e, "h"], ["g", "h"]]
                    yield {"name": "alias", "nodes": nodes, "edges": edges, "bbs": {}}
    # two gates whose operand pairs concatenate to the same auxiliary name
    nodes = [[o, "input", False] for o in ["a", "b", "c", "a_b", "b_c", "z"]]
    nodes += [["g1", "xor", True], ["g2", "xor", True]]
    edges = [[f, "g1"] for f in ("a_b", "c", "z")] + [[f, "g2"] for f in ("a", "b_c", "z")]
    yield {"name": "alias2", "nodes": nodes, "edges": edges, "bbs": {}}
    edges = [[f, "g1"] for f in ("z", "a_b", "c")] + [[f, "g2"] for f in ("z", "a", "b_c")] + [["c", "g2"]]
    yield {"name": "alias3", "nodes": nodes, "edges": edges, "bbs": {}}


def cases(tier, seed):
    rng = gen.rng_for(seed, "c01")
    for n_in, consts, n_g in ((1, (), 1), (2, (), 1), (2, (), 2), (1, ("0",), 2), (2, ("1",), 1)):
        if tier == "quick" and (n_in, n_g) == (2, 2):
            stride = 3
        else:
            stride = 1
        for i, cd in enumerate(gen.enum_circuits(n_in, n_g, consts=consts)):
            if i % stride:
                continue
            names = [n[0] for n in cd["nodes"]]
            for A in _assignments(rng, names, 1):
                yield {"c": cd, "A": A}
    for cd in alias_family():
        names = [n[0] for n in cd["nodes"]]
        for A in _assignments(rng, names, 1):
            yield {"c": cd, "A": A}
    # a node named like something the library derives from a gate: every f-string template of the current source
    for i, cd in enumerate(gen.template_family()):
        e = cd["nodes"][3][0]
        for A in ({}, {"h": True}, {e: True, "g": False}):
            yield {"c": cd, "A": A}
    # histories on ONE circuit object: solve, edit in place (same nodes and edges), solve again
    for t0, t1 in (("and", "or"), ("xor", "xnor"), ("nand", "and"), ("or", "nor"), ("buf", "not")):
        fis = ["a"] if t0 in ("buf", "not") else ["a", "b"]
        cd = {"name": "hist", "nodes": [["a", "input", False], ["b", "input", False], ["g", t0, False], ["h", "and", True]],
              "edges": [[f, "g"] for f in fis] + [["g", "h"], ["b", "h"]], "bbs": {}}
        for A in ({}, {"h": True}, {"g": True}):
            yield {"c": cd, "A": A, "history": [["set_type", "g", t1]]}
            yield {"c": cd, "A": A, "history": [["set_output", "g", True], ["set_type", "g", t1], ["set_type", "g", t0]]}
    n_rand = 250 if tier == "quick" else 5000
    for i in range(n_rand):
        nasty = rng.random() < 0.5
        cyc = rng.choice([0, 0, 0, 1, 2])
        cd = gen.random_circuit(
            rng, n_in=rng.randint(1, 4), n_gates=rng.randint(1, 7), max_fanin=rng.choice([2, 3, 5]),
            p_const=0.3, n_bb=rng.choice([0, 0, 1]), cyclic=cyc, p_out=0.3,
            names=(gen.NASTY_NAMES if nasty else None), unconnected_pins=0.2,
            types=(gen.GATES if rng.random() < 0.6 else ["xor", "xnor", "and", "not"]))
        names = [n[0] for n in cd["nodes"]]
        for A in _assignments(rng, names, 2):
            yield {"c": cd, "A": A}


def projected_models(formula, variables, nodes, cap=5000):
    from pysat.solvers import Solver
    s = Solver(bootstrap_with=formula.clauses)
    ids = [variables.id(n) for n in nodes]
    out = set()
    while s.solve():
        m = s.get_model()
        vals = tuple((m[i - 1] > 0) if i <= len(m) else False for i in ids)
        out.add(vals)
        s.add_clause([(-i if v else i) for i, v in zip(ids, vals)])
        if len(out) > cap:
            break
    return out


def run_case(case):
    c = circ.build(case["c"])
    A = case["A"]
    if case.get("history"):
        # the same object is solved, edited in place and solved again: only the last state is checked below
        try:
            cg.sat.solve(c, dict(A))
        except Exception:  # noqa
            pass
        for op in case["history"]:
            getattr(c, op[0])(*op[1:])
            try:
                cg.sat.solve(c, dict(A))
            except Exception:  # noqa
                pass
    fails = []
    nodes = sorted(c.graph.nodes)
    snap = circ.snapshot(c)
    if not spec.lintclean(c):
        return {"nontrivial": False, "failures": [], "skipped": "not lint-clean (outside the property's domain)"}
    try:
        vals = list(oracle.consistent_valuations(c, A))
    except oracle.OracleError:
        return {"nontrivial": False, "failures": []}
    res = cg.sat.solve(c, dict(A))
    if res is False:
        if vals:
            fails.append({"kind": "solve-false-but-consistent-valuation-exists",
                          "msg": f"solve returned False; oracle witness {vals[0]}"})
    else:
        if set(res) != set(nodes):
            fails.append({"kind": "solve-domain", "msg": f"result keys {sorted(res)} != nodes"})
        elif not all(isinstance(v, bool) for v in res.values()):
            fails.append({"kind": "solve-nonbool", "msg": str(res)})
        else:
            if any(res[k] != bool(v) for k, v in A.items()):
                fails.append({"kind": "solve-ignores-assumption", "msg": f"A={A} res={res}"})
            if not oracle.is_consistent(c, res):
                bad = [n for n in nodes if not oracle.node_ok(c, res, n)]
                fails.append({"kind": "solve-inconsistent-valuation", "msg": f"gates {bad} violated in {res}"})
            if not vals:
                fails.append({"kind": "solve-sat-but-none-consistent", "msg": f"A={A} res={res}"})
    # cnf level: satisfying assignments restricted to nodes == consistent valuations
    if not A:
        formula, variables = cg.sat.cnf(c)
        pm = projected_models(formula, variables, nodes)
        want = {tuple(v[n] for n in nodes) for v in vals}
        if pm != want:
            miss = sorted(want - pm)[:2]
            extra = sorted(pm - want)[:2]
            fails.append({"kind": "cnf-models-differ",
                          "msg": f"nodes={nodes} missing={miss} extra={extra} (|cnf|={len(pm)}, |oracle|={len(want)})"})
        ids = [variables.id(n) for n in nodes]
        if len(set(ids)) != len(ids):
            fails.append({"kind": "cnf-ids-not-injective", "msg": str(ids)})
    if circ.snapshot(c) != snap:
        fails.append({"kind": "argument-mutated", "msg": "solve/cnf changed the circuit"})
    return {"nontrivial": len(nodes) > 1, "failures": fails}
