"""C20 bounded stand-in: utils.lint decides exactly the documented rules
(oracle: vlib.spec.lint_violations, written from the property statement), and
library generators/parsers/transforms produce lint-clean circuits."""
import itertools

from vlib import circ, gen, spec
import circuitgraph as cg

TYPES = spec.SUPPORTED + [None, "foo"]
RULE = ("every graph with 1..2 nodes over 14 types + missing + unsupported type x every edge set (self-loops "
        "included) x dotted/undotted names x registry {absent, matching, missing pin, mistyped pin}; seeded random "
        "3..5-node ill-formed graphs; each under all 16 flag combinations; plus lint-clean generated circuits and "
        "outputs of logic generators / transforms (must pass); non-trivial = the spec finds at least one violation "
        "or the graph has an edge"
        "; plus: fully connected add_subcircuit / add_blackbox+fill_blackbox compositions of random lint-clean circuits (feed-through pins, nested instances) must be lint-clean")
BOUND = "<=2 nodes exhaustive, <=5 nodes random; 16 flag combinations; 4/16 hash seeds"
FLAGS = list(itertools.product((False, True), repeat=4))


def cases(tier, seed):
    rng = gen.rng_for(seed, "c20")
    # 1 node
    for t in TYPES:
        for name, bbs in (("a", {}), ("u.x", {}), ("u.x", {"u": ["bb", ["x"], []]}), ("u.x", {"u": ["bb", [], ["x"]]}),
                          ("a", {"u": ["bb", ["x"], []]}), ("ux.q", {"u": ["bb", [], []]}), ("uu.x", {"u": ["bb", [], []]}),
                          ("u1.x", {"u": ["bb", [], []], "u10": ["bb", [], []]}), ("u.x.y", {"u": ["bb", [], []]})):
            for loop in (False, True):
                for out in (None, False, True):
                    cd = {"name": "c", "nodes": [[name, t, out]], "edges": [[name, name]] if loop else [], "bbs": bbs}
                    yield {"kind": "graph", "c": cd}
    # 2 nodes
    for t0 in TYPES:
        for t1 in TYPES:
            for es in range(4):
                edges = ([["a", "b"]] if es & 1 else []) + ([["b", "a"]] if es & 2 else [])
                cd = {"name": "c", "nodes": [["a", t0, False], ["b", t1, True]], "edges": edges, "bbs": {}}
                yield {"kind": "graph", "c": cd}
    for t0 in ("bb_input", "bb_output", "buf", "input"):
        for t1 in ("buf", "and", "bb_output", "not"):
            for edges in ([], [["u.p", "b"]], [["b", "u.p"]]):
                for bbs in ({}, {"u": ["bb", ["p"], []]}, {"u": ["bb", [], ["p"]]}, {"u": ["bb", ["p", "q"], []]}):
                    cd = {"name": "c", "nodes": [["u.p", t0, False], ["b", t1, True]], "edges": edges, "bbs": bbs}
                    yield {"kind": "graph", "c": cd}
    # a blackbox output pin with 1..3 loads of every mix of buf / not / and / bb_input
    for k in (1, 2, 3):
        for tys in itertools.product(("buf", "not", "and", "bb_input"), repeat=k):
            if list(tys) != sorted(tys):
                continue
            nodes = [["u.q", "bb_output", False]] + [[(f"l{j}" if t != "bb_input" else f"v.p{j}"), t, True] for j, t in enumerate(tys)]
            bbs = {"u": ["bb", [], ["q"]]}
            if "bb_input" in tys:
                bbs["v"] = ["bb2", [f"p{j}" for j, t in enumerate(tys) if t == "bb_input"], []]
            yield {"kind": "graph", "c": {"name": "c", "nodes": nodes, "edges": [["u.q", n_[0]] for n_ in nodes[1:]], "bbs": bbs}}
    n_rand = 300 if tier == "quick" else 6000
    for i in range(n_rand):
        n = rng.randint(3, 5)
        names = [f"n{j}" for j in range(n)]
        if rng.random() < 0.3:
            names[0] = "u.p"
        nodes = [[nm, rng.choice(TYPES if rng.random() < 0.3 else spec.SUPPORTED), rng.choice([None, False, True])] for nm in names]
        edges = [[u, v] for u in names for v in names if u != v and rng.random() < 0.25]
        bbs = {"u": ["bb", ["p"], ["q"]]} if rng.random() < 0.3 else {}
        yield {"kind": "graph", "c": {"name": "c", "nodes": nodes, "edges": edges, "bbs": bbs}}
    for i in range(100 if tier == "quick" else 1500):
        cd = gen.random_circuit(rng, n_in=rng.randint(1, 4), n_gates=rng.randint(1, 7), max_fanin=4, p_const=0.3,
                                n_bb=rng.choice([0, 1, 2]), bb_clk=rng.random() < 0.5, cyclic=rng.choice([0, 1]),
                                unconnected_pins=0.3, x_const=True)
        yield {"kind": "graph", "c": cd, "expect_clean": True}
    for w in range(1, 7 if tier == "quick" else 12):
        yield {"kind": "lib", "f": "adder", "w": w}
        yield {"kind": "lib", "f": "mux", "w": w}
        yield {"kind": "lib", "f": "popcount", "w": w}
    # parser outputs must be lint-clean (netlists in which every net is driven)
    from vlib import vlog
    texts = ["xor g(o,a,a);", "assign o = (a ^ a) | b;", "xnor g(o,b,b);", "xor g(o,a,b,a);", "assign o = a ~^ a;",
             "and g(o,a,b);", "assign o = a ? b : 1'b0;", "xnor g1(w,a,a); and g2(o,w,b);"]
    for t in texts:
        yield {"kind": "parse", "text": "module top(a,b,o);\n input a; input b; output o; wire w;\n " + t + "\nendmodule\n"}
    for i in range(60 if tier == "quick" else 1000):
        nl = vlog.rand_netlist(rng, n_in=rng.randint(1, 3), n_items=rng.randint(1, 5), depth=2, bb=rng.choice([0, 1]),
                               repeated_operands=rng.random() < 0.5, exprs_in_gates=rng.random() < 0.3)
        yield {"kind": "parse", "text": vlog.render(nl, None), "bbs": nl["bbs"]}
    yield {"kind": "lib", "f": "half_adder", "w": 0}
    yield {"kind": "lib", "f": "full_adder", "w": 0}
    # fully connected compositions: every child input driven from the parent, every child output into a fresh buf
    for i in range(120 if tier == "quick" else 2500):
        via = "add_subcircuit" if i % 3 else "fill_blackbox"
        parent = gen.random_circuit(rng, n_in=rng.randint(1, 3), n_gates=rng.randint(1, 4), max_fanin=3, p_const=0.2,
                                    n_bb=rng.choice([0, 0, 1]), p_out=0.4)
        child = gen.random_circuit(rng, n_in=rng.randint(1, 3), n_gates=rng.randint(1, 3), max_fanin=3, p_const=0.3,
                                   n_bb=rng.choice([0, 0, 0, 1]), p_out=0.5, name="child",
                                   allow_input_output=(via == "add_subcircuit" and rng.random() < 0.5))
        drivers = [r[0] for r in parent["nodes"] if r[1] not in ("bb_input", "bb_output")]
        gates_first = [r[0] for r in parent["nodes"] if r[1] in gen.MULTI] or drivers
        conns, outbufs = {}, []
        for r in child["nodes"]:
            if r[1] == "input":
                conns[r[0]] = rng.choice(gates_first if r[2] else drivers)   # a feed-through pin is driven by a parent gate
            elif r[2]:
                outbufs.append(f"pb{len(outbufs)}")
                conns[r[0]] = outbufs[-1]
        yield {"kind": "compose", "via": via, "parent": parent, "child": child, "name": rng.choice(["s", "u0", "core_u0"]),   # (a dotted instance name makes dotted net names: not a lint-clean request)
               "conns": conns, "outbufs": outbufs}


def run_case(case):
    fails = []
    if case["kind"] == "parse":
        bbs = [circ.blackbox(k, i, o) for k, (i, o) in sorted(case.get("bbs", {}).items())]
        try:
            c = cg.io.verilog_to_circuit(case["text"], "top", blackboxes=bbs)
        except Exception:
            return {"nontrivial": False, "failures": []}  # parse failures are C02's business
        lv = spec.lint_violations(c)
        if lv:
            fails.append({"kind": "parser-output-not-lintclean", "msg": f"{lv[:3]}\n{case['text']}"})
        return {"nontrivial": True, "failures": fails}
    if case["kind"] == "compose":
        p, ch = circ.build(case["parent"]), circ.build(case["child"])
        if spec.lint_violations(p) or spec.lint_violations(ch) or (case["via"] == "fill_blackbox" and ch.inputs() & ch.outputs()):
            return {"nontrivial": False, "failures": []}
        for b in case["outbufs"]:
            p.add(b, "buf", output=True)
        try:
            if case["via"] == "add_subcircuit":
                p.add_subcircuit(ch, case["name"], dict(case["conns"]))
            else:
                if not ch.outputs():
                    return {"nontrivial": False, "failures": []}
                p.add_blackbox(circ.blackbox("implbb", sorted(ch.inputs()), sorted(ch.outputs())), case["name"], dict(case["conns"]))
                p.fill_blackbox(case["name"], ch)
        except ValueError:
            return {"nontrivial": False, "failures": []}   # a rejected composition produces nothing (C06 / C07 decide whether it may be rejected)
        lv = spec.lint_violations(p)
        if lv:
            fails.append({"kind": f"composition-not-lintclean:{case['via']}", "msg": f"{lv[:3]} connections={case['conns']}"})
        try:
            cg.lint(p)
        except ValueError as e:
            if not lv:
                fails.append({"kind": "lint-rejects-clean-circuit", "msg": f"composition: {e}"})
        return {"nontrivial": True, "failures": fails}
    if case["kind"] == "lib":
        w = case["w"]
        f = case["f"]
        outs = []
        if f == "adder":
            outs = [cg.logic.adder(w, ci, co) for ci in (False, True) for co in (False, True)]
        elif f == "mux":
            outs = [cg.logic.mux(w)] if w >= 2 else []
        elif f == "popcount":
            outs = [cg.logic.popcount(w)]
        else:
            outs = [getattr(cg.logic, f)()]
        for c in outs:
            lv = spec.lint_violations(c)
            if lv:
                fails.append({"kind": f"generator-not-lintclean:{f}", "msg": f"w={w}: {lv[:3]}"})
            try:
                cg.lint(c)
            except ValueError as e:
                if not lv:
                    fails.append({"kind": "lint-rejects-clean-circuit", "msg": f"{f}({w}): {e}"})
        return {"nontrivial": True, "failures": fails}
    c = circ.build(case["c"])
    snap = circ.snapshot(c)
    any_v = False
    if case.get("expect_clean") and spec.lint_violations(c):
        raise AssertionError("generator produced a non-lint-clean circuit: " + str(spec.lint_violations(c)))
    for ff, ul, ud, sg in FLAGS:
        want = spec.lint_violations(c, unloaded=ul, undriven=ud, single_input_gates=sg)
        any_v |= bool(want)
        try:
            cg.lint(c, fail_fast=ff, unloaded=ul, undriven=ud, single_input_gates=sg)
            raised = None
        except ValueError:
            raised = "ValueError"
        except Exception as e:
            raised = type(e).__name__
        flags = f"fail_fast={ff} unloaded={ul} undriven={ud} single_input_gates={sg}"
        if raised not in (None, "ValueError"):
            fails.append({"kind": "lint-raises-" + raised, "msg": f"{flags}: expected {'ValueError' if want else 'no error'}"})
        elif want and raised is None:
            rules = sorted({r for r, _ in want})
            fails.append({"kind": "lint-misses:" + "+".join(rules), "msg": f"{flags}: violated {want[:3]} but lint passed"})
        elif not want and raised:
            fails.append({"kind": "lint-false-alarm", "msg": f"{flags}: no rule violated but lint raised"})
        if len(fails) >= 3:
            break
    if circ.snapshot(c) != snap:
        fails.append({"kind": "argument-mutated", "msg": "lint changed its argument"})
    return {"nontrivial": any_v or bool(case["c"]["edges"]), "failures": fails}
