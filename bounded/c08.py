"""C08 bounded stand-in: model_count / signal_probability / approx_model_count
(default mode, DIMACS handed to a vendored exact projected counter)."""
import os
import tempfile
from fractions import Fraction

import networkx as nx

from vlib import circ, gen, oracle, spec
import circuitgraph as cg

RULE = ("every 2-input <=2-gate circuit, the C01 aliasing family, and seeded random lint-clean circuits with "
        "0..8 startpoints (flop pins, constants, cyclic ones, parity gates of fan-in >=3, encoder-like names) x "
        "assumption sets {none, on internal nodes, contradictory}; model_count and the DIMACS projected count are "
        "compared with brute-force enumeration; signal_probability for every node of acyclic blackbox-free "
        "circuits; non-trivial = circuit has a gate"
        "; plus: the template-name family of C01 and circuits with 10-11 startpoints whose projected count depends on every startpoint (DIMACS export only)"
        "; histories: an earlier revision of the same object (one gate type different) counted before, then edited back in place")
BOUND = "circuits <= 14 nodes, <= 9 free signals; assumptions over <= 3 nodes; 4/16 hash seeds"


def cases(tier, seed):
    from bounded import c01
    rng = gen.rng_for(seed, "c08")
    for n_g in (1, 2):
        for i, cd in enumerate(gen.enum_circuits(2, n_g)):
            if n_g == 2 and i % (12 if tier == "quick" else 2):
                continue
            names = [n[0] for n in cd["nodes"]]
            for A in c01._assignments(rng, names, 1):
                yield {"c": cd, "A": A, "approx": i % 6 == 0, "edited": i % 5 == 0}
    for i, cd in enumerate(c01.alias_family()):
        if i % (3 if tier == "quick" else 1) == 0:
            yield {"c": cd, "A": {}, "approx": False}
    for i, cd in enumerate(gen.template_family()):
        if i % (4 if tier == "quick" else 1) == 0:
            yield {"c": cd, "A": {}, "approx": False}
    # many startpoints (the DIMACS sampling set spans several lines / more than a machine word of small tricks)
    for w, ty, gv in ((10, "and", True), (11, "or", False), (10, "xor", True)):
        # 2 of the w startpoints feed the gate, the others are free: the projected count 2^(w-2) (xor: 2^(w-1)) depends
        # on every startpoint being in the sampling set
        nodes = [[f"i{k}", "input", False] for k in range(w)] + [["g", ty, True]]
        yield {"c": {"name": "wide", "nodes": nodes, "edges": [["i0", "g"], ["i1", "g"]], "bbs": {}}, "A": {"g": gv}, "approx": True, "export_only": True}
    # zero startpoints
    yield {"c": {"name": "k", "nodes": [["k0", "0", False], ["k1", "1", False], ["g", "and", True]],
                 "edges": [["k0", "g"], ["k1", "g"]], "bbs": {}}, "A": {}, "approx": True}
    yield {"c": {"name": "k", "nodes": [["k0", "0", False], ["g", "not", True]], "edges": [["k0", "g"]], "bbs": {}},
           "A": {"g": False}, "approx": True}
    n_rand = 150 if tier == "quick" else 3000
    for i in range(n_rand):
        cd = gen.random_circuit(
            rng, n_in=rng.randint(0, 5), n_gates=rng.randint(1, 7), max_fanin=rng.choice([2, 3, 5]),
            p_const=0.5, n_bb=rng.choice([0, 0, 1, 2]), cyclic=rng.choice([0, 0, 0, 1]), p_out=0.3,
            names=(gen.NASTY_NAMES if rng.random() < 0.3 else None), unconnected_pins=0.2,
            types=(gen.GATES if rng.random() < 0.6 else ["xor", "xnor", "and", "not"])) if True else None
        if not any(r[1] in ("input", "0", "1", "bb_output") for r in cd["nodes"]):
            continue
        names = [n[0] for n in cd["nodes"]]
        As = c01._assignments(rng, names, 2)
        if len(names) >= 2 and rng.random() < 0.3:
            n = rng.choice(names)
            As.append({n: True, **{m: False for m in names if m != n and rng.random() < 0.2}})
        for A in As:
            yield {"c": cd, "A": A, "approx": rng.random() < 0.3, "edited": rng.random() < 0.3}


def run_case(case):
    c = circ.build(case["c"])
    A = case["A"]
    if not spec.lintclean(c) or not len(c.graph):
        return {"nontrivial": False, "failures": []}
    fails = []
    snap = circ.snapshot(c)
    try:
        want = oracle.count_startpoint_models(c, A)
    except oracle.OracleError:
        return {"nontrivial": False, "failures": []}
    if case.get("edited"):
        # the caller counted an earlier revision of the same object, then edited it in place (same nodes and edges)
        gs = sorted(n for n in c.graph if c.graph.nodes[n].get("type") in gen.MULTI)
        if gs:
            g_ = gs[len(gs) // 2]
            t_ = c.graph.nodes[g_]["type"]
            c.set_type(g_, gen.MULTI[(gen.MULTI.index(t_) + 1) % len(gen.MULTI)])
            try:
                cg.sat.model_count(c, dict(A))
                if not c.blackboxes and nx.is_directed_acyclic_graph(c.graph):
                    cg.props.signal_probability(c, g_, approx=False)
            except Exception:
                pass
            finally:
                c.set_type(g_, t_)
    try:
        # (enumeration by blocking clauses with the pure-Python solver stand-in: skipped for the wide export-only cases)
        got = want if case.get("export_only") else cg.sat.model_count(c, dict(A))
        if got != want:
            fails.append({"kind": "model_count-wrong", "msg": f"model_count={got} oracle={want} A={A}"})
    except Exception as ex:
        fails.append({"kind": "model_count-raises", "msg": repr(ex)})
    if case.get("approx"):
        dump = tempfile.mktemp(prefix="verif_dimacs_")
        os.environ["VERIF_APPROXMC_DUMP"] = dump
        try:
            got = cg.sat.approx_model_count(c, dict(A))
            if got != want:
                fails.append({"kind": "dimacs-projected-count-wrong", "msg": f"DIMACS projected count={got} oracle={want} A={A}"})
        except Exception as ex:
            fails.append({"kind": "approx_model_count-raises", "msg": repr(ex)[:300]})
        finally:
            os.environ.pop("VERIF_APPROXMC_DUMP", None)
            if os.path.exists(dump):
                os.unlink(dump)
    if not c.blackboxes and nx.is_directed_acyclic_graph(c.graph) and not A:
        sp_all = oracle.startpoints(c)
        for n in sorted(c.graph.nodes):
            cone = nx.ancestors(c.graph, n) | {n}
            sps = [s for s in sp_all if s in cone]
            ones = 0
            tot = 0
            sub = c.graph.subgraph(cone)
            for a in oracle.all_input_vectors(sps):
                class _C:  # minimal circuit-like wrapper for the oracle
                    graph = sub
                v = oracle.simulate(_C, a)
                tot += 1
                ones += 1 if v[n] else 0
            try:
                p = cg.props.signal_probability(c, n, approx=False)
                if Fraction(p).limit_denominator(1 << 20) != Fraction(ones, tot):
                    fails.append({"kind": "signal_probability-wrong", "msg": f"node {n}: {p} expected {ones}/{tot}"})
                    break
            except Exception as ex:
                fails.append({"kind": "signal_probability-raises", "msg": f"node {n}: {ex!r}"})
                break
    if circ.snapshot(c) != snap:
        fails.append({"kind": "argument-mutated", "msg": "a counting function changed its argument"})
    return {"nontrivial": len(c.graph) > 1, "failures": fails}
