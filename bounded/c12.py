"""C12 bounded stand-in: graph queries vs their graph-theoretic definitions
(oracles are small independent graph routines in this file)."""
import itertools

from vlib import circ, gen
import circuitgraph as cg

RULE = ("every DAG on <=5 nodes (every subset of the upper-triangular edges; sources typed input/constant, the rest "
        "'and'), every digraph on <=3 nodes and sampled ones on 4 with cycles, random circuits with flop pins; for "
        "every node and sampled node lists all listed queries are compared with independent definitions; "
        "non-trivial = graph has >=2 edges"
        "; plus: DAGs on <=4 nodes whose sources include undriven gates; one gate of fan-in 1..12 over inputs and small gates with kcuts for every k <= fan-in+1")
BOUND = "DAGs <= 5 nodes exhaustive (quick: <=4 exhaustive, 5 sampled), digraphs <= 4 nodes, random <= 14 nodes; kcuts k in 1..3 (wide-gate family: fan-in <= 12, k <= 13)"


def _typed(n, edges, rng=None, bbsrc=False, srcgate=False):
    names = [f"n{i}" for i in range(n)]
    indeg = {v: 0 for v in names}
    outdeg = {v: 0 for v in names}
    for u, v in edges:
        indeg[v] += 1
        outdeg[u] += 1
    nodes = []
    for i, v in enumerate(names):
        if indeg[v] == 0:
            t = "input" if i % 3 != 2 else "1"
            if srcgate and i % 2 == 0:
                t = "and"   # a gate nobody drives yet is a source of the graph like any other
        else:
            t = "and"
        nodes.append([v, t, outdeg[v] == 0 or i % 4 == 1])
    return {"name": "g", "nodes": nodes, "edges": [list(e) for e in edges], "bbs": {}}


def cases(tier, seed):
    rng = gen.rng_for(seed, "c12")
    for n in range(1, 6):
        names = [f"n{i}" for i in range(n)]
        pairs = [(names[i], names[j]) for i in range(n) for j in range(i + 1, n)]
        for mask in range(1 << len(pairs)):
            if n == 5 and tier == "quick" and rng.random() > 0.25:
                continue
            edges = [p for k, p in enumerate(pairs) if mask >> k & 1]
            yield {"c": _typed(n, edges), "k": 1 + mask % 3}
    # sources that are undriven gates (circuits under construction): the queries are graph-theoretic
    for n in range(1, 5):
        names = [f"n{i}" for i in range(n)]
        pairs = [(names[i], names[j]) for i in range(n) for j in range(i + 1, n)]
        for mask in range(1 << len(pairs)):
            edges = [p for k, p in enumerate(pairs) if mask >> k & 1]
            yield {"c": _typed(n, edges, srcgate=True), "k": 1 + mask % 3}
    # one wide gate (fan-in 1..12; each operand an input or a small gate) and every k up to fan-in + 1
    for f in range(1, 13):
        nodes, edges = [], []
        for j in range(f):
            if (j + f) % 3 == 0:
                nodes += [[f"a{j}", "input", False], [f"b{j}", "input", False], [f"m{j:02d}", "or", False]]
                edges += [[f"a{j}", f"m{j:02d}"], [f"b{j}", f"m{j:02d}"], [f"m{j:02d}", "zz"]]
            else:
                nodes.append([f"a{j}", "input", False])
                edges.append([f"a{j}", "zz"])
        nodes.append(["zz", "and", True])
        for k in range(1, f + 2):
            if tier == "quick" and f > 8 and k not in (f - 1, f, f + 1):
                continue
            yield {"c": {"name": "wide", "nodes": nodes, "edges": edges, "bbs": {}}, "k": k, "only_kcuts_of": "zz"}
    for n in (2, 3, 4):
        names = [f"n{i}" for i in range(n)]
        pairs = [(u, v) for u in names for v in names if u != v]
        for mask in range(1 << len(pairs)):
            if n == 4 and rng.random() > (0.05 if tier == "quick" else 0.5):
                continue
            edges = [p for k, p in enumerate(pairs) if mask >> k & 1]
            yield {"c": _typed(n, edges), "k": 2}
    for i in range(100 if tier == "quick" else 2000):
        cd = gen.random_circuit(rng, n_in=rng.randint(1, 4), n_gates=rng.randint(2, 9), max_fanin=3, p_const=0.3,
                                n_bb=rng.choice([0, 1, 2]), cyclic=rng.choice([0, 0, 1]), unconnected_pins=0.3)
        yield {"c": cd, "k": rng.randint(1, 3)}


def _succ(c):
    return {n: set(c.graph.successors(n)) for n in c.graph}


def _pred(c):
    return {n: set(c.graph.predecessors(n)) for n in c.graph}


def _reach(adj, starts):
    """proper reachability: nodes reachable by >=1 edge from any start."""
    seen = set()
    todo = []
    for s in starts:
        todo.extend(adj[s])
    while todo:
        x = todo.pop()
        if x in seen:
            continue
        seen.add(x)
        todo.extend(adj[x])
    return seen


def _cyclic(adj):
    return any(n in _reach(adj, [n]) for n in adj)


def _longest(adj, starts):
    memo = {}

    def go(n):
        if n not in memo:
            memo[n] = max((1 + go(m) for m in adj[n]), default=0)
        return memo[n]
    return max(go(s) for s in starts)


def run_case(case):
    c = circ.build(case["c"])
    k = case["k"]
    fails = []
    snap = circ.snapshot(c)
    succ, pred = _succ(c), _pred(c)
    nodes = sorted(c.graph.nodes)
    ty = {n: c.graph.nodes[n].get("type") for n in nodes}
    outm = {n: bool(c.graph.nodes[n].get("output")) for n in nodes}
    cyc = _cyclic(succ)
    SP = {n for n in nodes if ty[n] in ("input", "bb_output")}
    EP = {n for n in nodes if outm[n] or ty[n] == "bb_input"}

    def chk(kind, got, want, what):
        if got != want:
            fails.append({"kind": kind, "msg": f"{what}: got {got!r} expected {want!r}"})

    args = [[n] for n in nodes] + [list(p) for p in itertools.combinations(nodes, 2)][:6]
    if len(nodes) >= 3:
        args.append(nodes[:3])
    for ns in args:
        a = ns[0] if len(ns) == 1 else ns
        chk("fanin", c.fanin(a), set().union(*[pred[n] for n in ns]), f"fanin({a})")
        chk("fanout", c.fanout(a), set().union(*[succ[n] for n in ns]), f"fanout({a})")
        # proper ancestors/descendants of each node (a node is never its own proper
        # ancestor, also on a cycle), united over the node set
        tfi = set().union(*[_reach(pred, [n]) - {n} for n in ns])
        tfo = set().union(*[_reach(succ, [n]) - {n} for n in ns])
        chk("transitive_fanin", c.transitive_fanin(a), tfi, f"transitive_fanin({a})")
        chk("transitive_fanout", c.transitive_fanout(a), tfo, f"transitive_fanout({a})")
        chk("startpoints", c.startpoints(a), (set(ns) | tfi) & SP, f"startpoints({a})")
        chk("endpoints", c.endpoints(a), (set(ns) | tfo) & EP, f"endpoints({a})")
        for fn, adj in (("fanin_depth", pred), ("fanout_depth", succ)):
            try:
                got = getattr(c, fn)(a)
                if cyc:
                    fails.append({"kind": fn + "-accepts-cyclic", "msg": f"{fn}({a}) returned {got} on a cyclic graph"})
                else:
                    chk(fn, got, _longest(adj, ns), f"{fn}({a})")
            except ValueError as e:
                if not cyc:
                    fails.append({"kind": fn + "-raises", "msg": f"{fn}({a}): {e!r}"})
        if len(fails) > 4:
            break
    chk("startpoints", c.startpoints(), SP, "startpoints()")
    chk("endpoints", c.endpoints(), EP, "endpoints()")
    chk("is_cyclic", c.is_cyclic(), cyc, "is_cyclic()")
    if not cyc:
        order = list(c.topo_sort())
        pos = {n: i for i, n in enumerate(order)}
        if sorted(order) != nodes or any(pos[u] >= pos[v] for u in nodes for v in succ[u]):
            fails.append({"kind": "topo_sort", "msg": f"{order}"})
        want = {n: _longest(pred, [n]) for n in nodes}
        has_bb_src = any(ty[n] not in ("input", "0", "1", "x") and not pred[n] for n in nodes)
        try:
            lv = cg.props.levelize(c)
            chk("levelize", lv, want, "levelize")
        except ValueError as e:
            fails.append({"kind": "levelize-raises" + ("-on-blackbox-or-undriven-source" if has_bb_src else ""), "msg": repr(e)})
    else:
        try:
            cg.props.levelize(c)
            fails.append({"kind": "levelize-accepts-cyclic", "msg": ""})
        except ValueError:
            pass
    want_rc = set()
    for n in nodes:
        fo = sorted(succ[n])
        for a, b in itertools.combinations(fo, 2):
            if ({a} | _reach(succ, [a])) & ({b} | _reach(succ, [b])):
                want_rc.add(n)
                break
    got_rc = list(c.reconvergent_fanout_nodes())
    if set(got_rc) != want_rc or len(got_rc) != len(set(got_rc)):
        fails.append({"kind": "reconvergent_fanout_nodes", "msg": f"got {sorted(got_rc)} expected {sorted(want_rc)}"})
    chk("has_reconvergent_fanout", c.has_reconvergent_fanout(), bool(want_rc), "has_reconvergent_fanout()")
    if not cyc:
        sources = {n for n in nodes if not pred[n]}
        for n in ([case["only_kcuts_of"]] if case.get("only_kcuts_of") else nodes[-3:]):
            for cut in c.kcuts(n, k):
                cut = set(cut)
                if cut == {n}:
                    continue
                if len(cut) > k:
                    fails.append({"kind": "kcuts-too-wide", "msg": f"kcuts({n},{k}) gave {sorted(cut)}"})
                # every path from a source to n meets the cut
                adj = {u: {v for v in succ[u] if v not in cut} for u in nodes if u not in cut}
                for s in sources - cut:
                    if s == n or n in _reach({u: adj.get(u, set()) for u in nodes}, [s]):
                        fails.append({"kind": "kcuts-not-separating", "msg": f"kcuts({n},{k}) cut {sorted(cut)} leaves a path from source {s}"})
                        break
    if circ.snapshot(c) != snap:
        fails.append({"kind": "argument-mutated", "msg": "a query changed the circuit"})
    return {"nontrivial": len(case["c"]["edges"]) >= 2, "failures": fails[:6]}
