"""C17 bounded stand-in: supergate decomposition contract (run-time checked)."""
import networkx as nx

from vlib import circ, gen, oracle, spec, sem
import circuitgraph as cg

RULE = ("trees, reconvergent cones (diamonds, nested diamonds), multiple outputs sharing logic, gates with 3..5 "
        "inputs, every 2-input <=3-gate circuit over {and,or,xor,not} (sampled), seeded random lint-clean "
        "blackbox-free acyclic circuits up to 12 gates, plus the bundled c17; single-output ones also through "
        "construct_supercircuit=True (every supergate blackbox refilled, equivalence by exhaustive simulation); "
        "non-trivial = circuit has reconvergent fan-out or more than one supergate is returned"
        "; plus: a constant feeding two or three gates (a constant as fan-out stem)")
BOUND = "circuits <= 18 nodes, <= 6 inputs; 4/16 hash seeds"


def cases(tier, seed):
    rng = gen.rng_for(seed, "c17")
    for n_g in (1, 2, 3):
        for i, cd in enumerate(gen.enum_circuits(2, n_g, gate_types=["and", "or", "xor", "not"])):
            if n_g == 3 and i % (97 if tier == "quick" else 7):
                continue
            if n_g == 2 and tier == "quick" and i % 3:
                continue
            yield {"c": cd}
    for i in range(150 if tier == "quick" else 3000):
        cd = gen.random_circuit(rng, n_in=rng.randint(2, 5), n_gates=rng.randint(2, 11), max_fanin=rng.choice([2, 2, 3, 5]),
                                p_const=rng.choice([0.0, 0.0, 0.4]), p_out=rng.choice([0.0, 0.2]))
        if rng.random() < 0.25:
            # a constant that is a fan-out stem: feed one constant into two or three gates of the circuit
            gates = [r[0] for r in cd["nodes"] if r[1] in ("and", "or", "xor", "nand", "nor", "xnor")]
            if len(gates) >= 2:
                cd = dict(cd)
                cd["nodes"] = cd["nodes"] + [["tie", rng.choice(["0", "1"]), False]]
                cd["edges"] = cd["edges"] + [["tie", g_] for g_ in rng.sample(gates, min(len(gates), rng.randint(2, 3)))]
        yield {"c": cd}
    yield {"lib": "c17"}


def run_case(case):
    if "lib" in case:
        c = cg.from_lib(case["lib"])
    else:
        c = circ.build(case["c"])
    if not spec.lintclean(c) or c.blackboxes or not sem.is_dag(c) or not c.outputs():
        return {"nontrivial": False, "failures": []}
    fails = []
    snap = circ.snapshot(c)
    ck = cg.tx.limit_fanin(c, 2)
    ck2 = cg.tx.limit_fanin(c, 2)
    deterministic = circ.same_structure(ck, ck2)
    try:
        sgs = cg.tx.supergates(c)
    except Exception as ex:
        # class of inputs of known finding D26: several outputs whose cones share gates (the per-cone supergates overlap)
        g0 = c.graph
        outs = sorted(c.outputs())
        gate_cone = {o: {n for n in (nx.ancestors(g0, o) | {o}) if g0.nodes[n]["type"] not in ("input", "0", "1", "x")} for o in outs}
        shared = any(gate_cone[a] & gate_cone[b] for a in outs for b in outs if a < b)
        tag = "[outputs-share-logic]" if shared else ""
        return {"nontrivial": True, "failures": [{"kind": "supergates-raises-" + type(ex).__name__ + tag, "msg": repr(ex)}]}
    gk = ck.graph
    prim_in = set(ck.inputs())
    seen_internal = set()
    for idx, sg in enumerate(sgs):
        if len(sg.outputs()) != 1 or sg.blackboxes:
            fails.append({"kind": "supergate-not-single-output", "msg": f"block {idx}: outputs {sorted(sg.outputs())}"})
            continue
        internal = set(sg.graph.nodes) - set(sg.inputs())
        for i in set(sg.inputs()) - prim_in:
            if i not in seen_internal:
                fails.append({"kind": "supergates-not-topologically-ordered", "msg": f"block {idx} input {i} is not produced by an earlier block"})
        if deterministic:
            for n in internal:
                if n not in gk or gk.nodes[n].get("type") != sg.graph.nodes[n].get("type") or \
                        set(gk.predecessors(n)) != set(sg.graph.predecessors(n)):
                    fails.append({"kind": "supergate-wiring-differs", "msg": f"block {idx} node {n}"})
                    break
            ins = sorted(sg.inputs())
            cones = {i: ({i} | nx.ancestors(gk, i)) for i in ins if i in gk}
            for a_i in range(len(ins)):
                for b_i in range(a_i + 1, len(ins)):
                    a, b = ins[a_i], ins[b_i]
                    if a in cones and b in cones and cones[a] & cones[b]:
                        fails.append({"kind": "supergate-inputs-share-fanin", "msg": f"block {idx} (output {sorted(sg.outputs())}): inputs {a},{b} share {sorted(cones[a] & cones[b])[:3]}"})
                        break
                if fails:
                    break
        seen_internal |= internal
    if deterministic:
        cone_gates = set()
        for o in ck.outputs():
            cone_gates |= ({o} | nx.ancestors(gk, o))
        cone_gates = {n for n in cone_gates if gk.nodes[n].get("type") != "input"}
        missing = cone_gates - seen_internal
        if missing:
            fails.append({"kind": "supergates-do-not-cover", "msg": f"gates not in any block: {sorted(missing)[:5]}"})
    if len(c.outputs()) == 1 and not fails:
        try:
            superc, sgmap = cg.tx.supergates(c, construct_supercircuit=True)
            for name, sg in sgmap.items():
                superc.fill_blackbox(name, sg)
            if superc.blackboxes:
                fails.append({"kind": "supercircuit-leftover-blackboxes", "msg": str(sorted(superc.blackboxes))})
            else:
                (o,) = c.outputs()
                if not set(c.inputs()) >= set(superc.inputs()) - set():
                    pass
                ok, why = sem.same_functions(superc, _cone(c, o), [o])
                if not ok:
                    fails.append({"kind": "supercircuit-not-equivalent", "msg": why})
        except Exception as ex:
            fails.append({"kind": "supercircuit-raises-" + type(ex).__name__, "msg": repr(ex)[:300]})
    if circ.snapshot(c) != snap:
        fails.append({"kind": "argument-mutated", "msg": "supergates changed its argument"})
    nontrivial = len(sgs) > 1 or c.has_reconvergent_fanout()
    return {"nontrivial": nontrivial, "failures": fails}


def _cone(c, o):
    """c restricted to what the comparison needs: same circuit (all inputs kept)."""
    return c
