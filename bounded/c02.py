"""C02 bounded stand-in: verilog_to_circuit (full parser) vs an independent
evaluator of the structural subset (vlib.vlog)."""
import copy
import itertools

from vlib import circ, gen, oracle, spec, vlog
import circuitgraph as cg

RULE = ("netlist ASTs generated from the subset grammar: every binary/unary operator pair and every ?: over 3 nets "
        "(precedence/associativity), random expression trees to depth 3, primitive instances (several per statement, "
        "expressions as operands, repeated operands), assigns, named-port blackbox instances with connected / `.p()` "
        "/ omitted pins; rendered plain, with shuffled statement order (use before definition), and with fuzzed "
        "whitespace + comments; names from plain and parser-synthetic-looking universes (not_a, and_a_b, tie_0); "
        "port-list/declaration mismatches must be rejected; every valuation of inputs and blackbox outputs is "
        "compared net by net; non-trivial = netlist has >=2 items"
        "; plus: operand lists with 3-5 repeats, nets named tie_hi/tie_lo/tie_a, an earlier netlist parsed by the same process before the one under test, blackbox types whose pins and names (BUF, Nand) vary between netlists")
BOUND = "<= 4 inputs, <= 7 items, expression depth <= 3, <= 2 blackbox instances (<= 9 free signals); 4/16 hash seeds"

OPS2 = ["and", "or", "xor", "xnor"]


def _mk(inputs, outputs, wires, items, bbs=None, **kw):
    d = {"name": "top", "inputs": inputs, "outputs": outputs, "wires": wires, "items": items, "bbs": bbs or {}}
    d.update(kw)
    return d


def precedence_family():
    ins = ["a", "b", "c"]
    for o1, o2 in itertools.product(OPS2, repeat=2):
        for shape in ("l", "r"):
            e = [o2, [o1, "a", "b"], "c"] if shape == "l" else [o1, "a", [o2, "b", "c"]]
            yield _mk(ins, ["y"], [], [["assign", [["y", e]]]])
        yield _mk(ins, ["y"], [], [["assign", [["y", ["not", [o1, "a", [o2, ["not", "b"], "c"]]]]]]])
    for o1 in OPS2:
        yield _mk(ins, ["y"], [], [["assign", [["y", ["mux", [o1, "a", "b"], "c", ["not", "a"]]]]]])
        yield _mk(ins, ["y"], [], [["assign", [["y", ["mux", "a", [o1, "b", "c"], [o1, "a", "c"]]]]]])
    yield _mk(ins, ["y"], [], [["assign", [["y", ["mux", "a", ["const", "1"], ["const", "0"]]]]]])
    yield _mk(ins, ["y", "z"], [], [["assign", [["y", ["const", "1"]], ["z", ["and", "a", ["const", "0"]]]]]])


def special_family():
    ins = ["a", "b", "c"]
    # repeated operands
    for t in ("xor", "xnor", "and", "or", "nand", "nor"):
        yield _mk(ins, ["y"], [], [["gate", t, [["g0", "y", ["a", "a"]]]]]), "rep"
        yield _mk(ins, ["y"], [], [["gate", t, [["g0", "y", ["a", "b", "a"]]]]]), "rep"
        for ops in (["a", "a", "a"], ["a", "a", "a", "b"], ["a", "b", "a", "a"], ["a", "a", "a", "a"], ["b", "a", "b", "a", "b"]):
            yield _mk(ins, ["y"], [], [["gate", t, [["g0", "y", ops]]]]), "rep"
    for o in OPS2:
        yield _mk(ins, ["y"], [], [["assign", [["y", [o, "a", "a"]]]]]), "rep"
        yield _mk(ins, ["y"], [], [["assign", [["y", [o, [o, "a", "b"], [o, "a", "b"]]]]]]), "rep"
    # repeated sub-expressions in different statements
    yield _mk(ins, ["y", "z"], [], [["assign", [["y", ["and", "a", "b"]], ["z", ["or", ["and", "a", "b"], "c"]]]]]), "plain"
    yield _mk(ins, ["y", "z"], [], [["assign", [["y", ["not", "a"]]]], ["assign", [["z", ["and", ["not", "a"], "b"]]]]]), "plain"
    # nets named like the parser's internal constants
    for tie, k in (("tie_0", "1"), ("tie_1", "0"), ("tie_x", "1")):
        yield _mk(ins, ["y"], [tie], [["assign", [[tie, "a"]]], ["assign", [["y", ["and", tie, "b"]]]]]), "tie"
        yield _mk(ins + [tie], ["y"], [], [["assign", [["y", ["or", tie, ["const", k]]]]]]), "tie"
        yield _mk(ins, ["y"], [tie], [["gate", "and", [["g0", tie, ["a", "b"]]]], ["assign", [["y", [("xor"), tie, ["const", k]]]]]]), "tie"
    # nets whose names merely START like the internal constants (tie_hi, tie_lo): ordinary nets
    for tie in ("tie_hi", "tie_lo", "tie_a", "tie_00"):
        yield _mk(ins, ["y"], [tie], [["assign", [[tie, ["and", "a", "b"]]]], ["assign", [["y", ["or", tie, "c"]]]]]), "plain"
        yield _mk(ins, ["y", tie], [], [["gate", "nor", [["g0", tie, ["a", "b"]]]], ["gate", "buf", [["g1", "y", [tie]]]]]), "plain"
        yield _mk(ins, [tie], [], [["assign", [[tie, ["const", "1"]]]]]), "plain"
    # nets named like synthetic expression nodes
    yield _mk(ins + ["x", "y"], ["g", "and_a_b"], [], [["assign", [["g", ["and", ["and", "a", "b"], "c"]]]],
                                                       ["assign", [["and_a_b", ["or", "x", "y"]]]]]), "syn"
    yield _mk(ins + ["x"], ["g", "not_a"], [], [["assign", [["g", ["and", ["not", "a"], "b"]]]], ["gate", "buf", [["b0", "not_a", ["x"]]]]]), "syn"
    yield _mk(ins + ["not_a"], ["g"], [], [["assign", [["g", ["and", ["not", "a"], "not_a"]]]]]), "syn"
    yield _mk(ins + ["or_b_c"], ["g", "h"], [], [["assign", [["g", ["and", ["or", "b", "c"], "a"]]]], ["assign", [["h", ["not", "or_b_c"]]]]]), "syn"
    yield _mk(ins, ["g", "xor_a_b"], [], [["assign", [["xor_a_b", ["and", "a", "c"]]]], ["assign", [["g", ["or", ["xor", "a", "b"], "c"]]]]]), "syn"
    yield _mk(ins, ["y", "z"], ["and_a_b"], [["gate", "or", [["g0", "and_a_b", ["a", "c"]]]], ["assign", [["y", ["xor", ["and", "a", "b"], "c"]]]],
                                              ["assign", [["z", "and_a_b"]]]]), "syn"
    # a declared net named like the synthetic name of its OWN driver, read and negated by name elsewhere
    for op, nm in (("and", "and_a_b"), ("or", "or_a_b"), ("xor", "xor_a_b")):
        drv = ["assign", [[nm, [op, "a", "b"]]]]
        use = [["assign", [["y", ["not", nm]]]], ["assign", [["z", ["and", nm, "c"]]]]]
        yield _mk(ins, ["y", "z"], [nm], [drv] + use), "own"
        yield _mk(ins, ["y", "z"], [nm], use + [drv]), "own"
        yield _mk(ins, ["y", "z", nm], [], [drv] + use), "own"


def joined_family():
    """different sub-expressions whose operand names join to the same string (a,b_c vs a_b,c)"""
    ins = ["a", "b", "c", "a_b", "b_c"]
    for o in OPS2:
        yield _mk(ins, ["y", "z"], [], [["assign", [["y", [o, "a", "b_c"]]]], ["assign", [["z", [o, "a_b", "c"]]]]])
        yield _mk(ins, ["y", "z"], [], [["assign", [["y", ["or", [o, "a", "b_c"], "b"]], ["z", ["and", [o, "a_b", "c"], "a"]]]]])
        yield _mk(ins, ["y", "z"], [], [["assign", [["y", [o, ["not", "a"], "b_c"]]]], ["assign", [["z", [o, "a_b", ["not", "c"]]]]]])
    yield _mk(ins, ["y", "z"], [], [["assign", [["y", ["mux", "a", "b_c", "c"]]]], ["assign", [["z", ["mux", "a_b", "c", "c"]]]]])
    yield _mk(ins, ["y", "z"], [], [["assign", [["y", ["not", "a_b"]]]], ["assign", [["z", ["and", ["not", "a_b"], "c"]]]]])


def reject_family():
    ins = ["a", "b"]
    base = _mk(ins, ["y"], [], [["assign", [["y", ["and", "a", "b"]]]]])
    for ports in (["a", "y"], ["a", "b"], ["a", "b", "y", "z"], ["a", "b", "y", "y2"]):
        d = copy.deepcopy(base)
        d["ports"] = ports
        yield d
    # a port that is only declared as a wire (neither input nor output)
    d = copy.deepcopy(base)
    d["ports"] = ["a", "b", "y", "w"]
    d["wires"] = ["w"]
    d["items"].append(["assign", [["w", "a"]]])
    yield d
    d = copy.deepcopy(base)
    d["ports"] = ["a", "b", "y", "w"]
    d["wires"] = ["w"]
    yield d
    d = copy.deepcopy(base)
    d["ports"] = ["a", "b", "y"]
    d["outputs"] = ["y", "q"]  # declared output not in the port list
    d["items"].append(["assign", [["q", "a"]]])
    yield d


def cases(tier, seed):
    rng = gen.rng_for(seed, "c02")
    for nl in precedence_family():
        for layout in ("plain", "fuzz", "tight"):
            yield {"nl": nl, "layout": layout, "order": None, "comments": layout == "fuzz", "salt": 1, "fam": "plain"}
    for nl in joined_family():
        yield {"nl": nl, "layout": "plain", "order": None, "comments": False, "salt": 4, "fam": "plain"}
    for nl, fam in special_family():
        yield {"nl": nl, "layout": "plain", "order": None, "comments": False, "salt": 2, "fam": fam}
    for pre_e, nm in ((["and", "a", "b"], "and_a_b"), (["not", "a"], "not_a"), (["xor", "a", "b"], "xor_a_b")):
        pre = _mk(["a", "b"], ["w"], [], [["assign", [["w", pre_e]]]])
        main = _mk(["a", nm], ["z", "y"], [], [["assign", [["z", nm]]], ["assign", [["y", ["or", "a", nm]]]]])
        yield {"nl": main, "pre": pre, "layout": "plain", "order": None, "comments": False, "salt": 5, "fam": "plain"}
    for nl in reject_family():
        yield {"nl": nl, "layout": "plain", "order": None, "comments": False, "salt": 3, "fam": "reject"}
    n = 250 if tier == "quick" else 5000
    for i in range(n):
        bb = rng.choice([0, 0, 1, 2])
        fam = "plain"
        unc = rng.choice([0.0, 0.0, 0.3])
        pool = (["a", "b", "c", "a_b", "b_c", "c_a", "a_b_c", "b0", "b1"] + [f"n{k}" for k in range(12)]) if rng.random() < 0.3 else None
        nl = vlog.rand_netlist(rng, n_in=rng.randint(1, 4), n_items=rng.randint(1, 6), depth=rng.randint(1, 3), bb=bb, names=pool,
                               exprs_in_gates=rng.random() < 0.4, unconnected=unc, omitted=rng.choice([0.0, 0.2]))
        if any(it[0] == "bb" and None in it[3].values() for it in nl["items"]):
            fam = "unc"
        yield {"nl": nl, "layout": rng.choice(["plain", "fuzz", "fuzz", "tight"]), "order": rng.choice([None, "shuffle"]),
               "comments": rng.random() < 0.5, "salt": i, "fam": fam, "hdr": rng.random() < 0.1}


def _bbs(nl):
    return [circ.blackbox(name, ins, outs) for name, (ins, outs) in sorted(nl["bbs"].items())]


def _has_rep(nl):
    def rep_e(e):
        if isinstance(e, str) or e[0] == "const":
            return False
        if e[0] in ("xor", "xnor") and e[1] == e[2]:
            return True
        return any(rep_e(s) for s in e[1:])
    for it in nl["items"]:
        if it[0] == "gate" and it[1] in ("xor", "xnor"):
            for _, _, ops in it[2]:
                if len({repr(o) for o in ops}) != len(ops):
                    return True
        if it[0] == "gate":
            for _, _, ops in it[2]:
                if any(rep_e(o) for o in ops):
                    return True
        if it[0] == "assign" and any(rep_e(ex) for _, ex in it[1]):
            return True
    return False


def run_case(case):
    nl = case["nl"]
    rng = gen.rng_for(case["salt"], "render")
    text = vlog.render(nl, rng, layout=case["layout"], order=case["order"], comments=case["comments"],
                       header_comments=case.get("hdr", False))
    fam = case["fam"]
    fails = []
    if case.get("pre") is not None:
        # another netlist parsed earlier by the same process must not influence this one
        try:
            cg.io.verilog_to_circuit(vlog.render(case["pre"], rng, layout="plain"), case["pre"]["name"])
        except Exception:  # noqa
            pass

    def fail(kind, msg):
        # classification by a predicate on the INPUT, most specific first (keys of known findings)
        tags = []
        if fam == "rep" or _has_rep(nl):
            tags.append("[repeated-parity-operand]")
        if fam == "tie":
            tags.append("[net-named-like-internal-constant]")
        if fam == "syn":
            tags.append("[net-named-like-synthetic-gate]")
        if fam == "unc":
            tags.append("[unconnected-pin]")
        hdr = text[:text.index(");")]
        if "/*" in hdr or "//" in hdr:
            tags.append("[comment-in-module-header]")
        if "module not found" in msg and "[comment-in-module-header]" in tags:
            tags = ["[comment-in-module-header]"]
        fails.append({"kind": kind + (tags[0] if tags else ""), "msg": msg + "\n" + text})

    if fam == "reject":
        try:
            c = cg.io.verilog_to_circuit(text, nl["name"])
            fail("port-mismatch-accepted", f"ports {nl.get('ports')} vs inputs {nl['inputs']} outputs {nl['outputs']}")
        except Exception as ex:
            if type(ex).__name__ not in ("VerilogParsingError", "ValueError"):
                fail("port-mismatch-wrong-exception", repr(ex))
        return {"nontrivial": True, "failures": fails}
    try:
        c = cg.io.verilog_to_circuit(text, nl["name"], blackboxes=_bbs(nl))
    except Exception as ex:
        fail("parser-raises-" + type(ex).__name__, repr(ex)[:300])
        return {"nontrivial": True, "failures": fails}
    if set(c.inputs()) != set(nl["inputs"]) or set(c.outputs()) != set(nl["outputs"]):
        fail("io-differs", f"inputs {sorted(c.inputs())} outputs {sorted(c.outputs())}")
        return {"nontrivial": True, "failures": fails}
    # blackbox instances and pins
    insts = {it[2]: it for it in nl["items"] if it[0] == "bb"}
    if set(c.blackboxes) != set(insts):
        fail("blackbox-instances-differ", f"{sorted(c.blackboxes)} vs {sorted(insts)}")
        return {"nontrivial": True, "failures": fails}
    pin_of_net = {}
    for inst, (_, bbname, _, conns) in insts.items():
        bins, bouts = nl["bbs"][bbname]
        if c.blackboxes[inst].name != bbname:
            fail("blackbox-type-differs", inst)
        for p in bins + bouts:
            pn = f"{inst}.{p}"
            if pn not in c.graph:
                fail("blackbox-pin-missing", pn)
                continue
            net = conns.get(p)
            got = set(c.graph.predecessors(pn)) if p in bins else set(c.graph.successors(pn))
            if got != ({net} if net is not None else set()):
                fail("blackbox-pin-net-differs", f"{pn}: attached {sorted(got)} expected {net}")
            if p in bouts and net is not None:
                pin_of_net[net] = pn
    if fails:
        return {"nontrivial": True, "failures": fails}
    free_nl = vlog.free_signals(nl)
    all_pins_out = {f"{inst}.{p}" for inst, (_, b, _, _) in insts.items() for p in nl["bbs"][b][1]}
    want_free = set(nl["inputs"]) | all_pins_out
    try:
        free_c = set(oracle.free_nodes(c))
    except oracle.OracleError as e:
        fail("circuit-has-x", str(e))
        return {"nontrivial": True, "failures": fails}
    undr_pins = {f"{inst}.{p}" for inst, (_, b, _, conns) in insts.items() for p in nl["bbs"][b][0] if conns.get(p) is None}
    if free_c - undr_pins != want_free:
        fail("free-signals-differ", f"free nodes of circuit {sorted(free_c)} expected {sorted(want_free)}")
        return {"nontrivial": True, "failures": fails}
    declared = list(nl["inputs"]) + list(nl["outputs"]) + list(nl["wires"])
    for n in declared:
        if n not in c.graph:
            fail("declared-net-missing", n)
            return {"nontrivial": True, "failures": fails}
    if len(free_nl) <= 10:
        for a in oracle.all_input_vectors(free_nl):
            want = vlog.evaluate(nl, a)
            asg = {}
            for k, v in a.items():
                asg[pin_of_net.get(k, k)] = v
            for p in free_c:
                asg.setdefault(p, False)
            got = oracle.simulate(c, asg)
            bad = [n for n in declared if got[n] != want[n]]
            if bad:
                fail("net-value-differs", f"nets {bad}: circuit {({n: got[n] for n in bad})} Verilog {({n: want[n] for n in bad})} under {a}")
                break
    return {"nontrivial": len(nl["items"]) >= 2, "failures": fails}
