"""C07 bounded stand-in: representation invariant `wired` (vlib.spec.wired_violations,
written from the property statement) monitored after every call of every
sequence of construction-API operations, successful or rejected."""
import itertools

import networkx as nx

from vlib import circ, gen, spec
import circuitgraph as cg

NAMES = ["a", "b", "c", "d", "", "1x", "u.p", "u.q", "v.q", "u_p"]
TYPES = ["input", "and", "buf", "not", "0", "bb_input", "bb_output", "foo", "xor"]
RULE = ("operation sequences over the name universe {a,b,c,'','1x',u.p,u.q,u_p} and 9 types (one unsupported): "
        "every sequence of 2 operations from a fixed operation alphabet (quick) after each of several seed states "
        "(empty; small wired circuits with a blackbox), and seeded random sequences of length <=12 of add (default "
        "/ uid) connect disconnect remove set_output add_blackbox add_subcircuit fill_blackbox with valid, invalid, "
        "duplicate and self-referential arguments; after EVERY call: wired(c), and on a rejected call: edge set "
        "unchanged and exception class; non-trivial = at least one call succeeded and at least one was rejected"
        "; plus seed states with nested-blackbox children (`nestedpins`) and a pin node replaced by an ordinary gate (`replacedpin`), type arguments differing from supported types by case / blanks / non-strings")
BOUND = "sequence length <= 2 exhaustive over the alphabet, <= 12 random; name universe of 8; 4/16 hash seeds"

BBS = {"pintop": ["pintop", ["x"], ["f.q", "o"]], "pintop2": ["pintop2", ["x"], ["f.p", "o"]], "ffd": ["ffd", ["p"], ["q"]], "one": ["one", ["p"], []], "wide": ["wide", ["p", "r"], ["q", "s"]]}
SUBS = {
    "and2": {"name": "and2", "nodes": [["x", "input", False], ["y", "input", False], ["o", "and", True]],
             "edges": [["x", "o"], ["y", "o"]], "bbs": {}},
    "inv": {"name": "inv", "nodes": [["p", "input", False], ["q", "not", True]], "edges": [["p", "q"]], "bbs": {}},
    "withbb": {"name": "wb", "nodes": [["x", "input", False], ["f.p", "bb_input", False], ["f.q", "bb_output", False],
                                       ["o", "buf", True]], "edges": [["x", "f.p"], ["f.q", "o"]],
               "bbs": {"f": ["ffd", ["p"], ["q"]]}},
    # children whose outputs are pins of a nested blackbox instance (a bb_output resp. a bb_input marked as output)
    "pinout": {"name": "po", "nodes": [["x", "input", False], ["f.p", "bb_input", False], ["f.q", "bb_output", True], ["o", "buf", True]],
               "edges": [["x", "f.p"], ["f.q", "o"]], "bbs": {"f": ["ffd", ["p"], ["q"]]}},
    "pinin_out": {"name": "pio", "nodes": [["x", "input", False], ["f.p", "bb_input", True], ["f.q", "bb_output", False], ["o", "buf", True]],
                  "edges": [["x", "f.p"], ["f.q", "o"]], "bbs": {"f": ["ffd", ["p"], ["q"]]}},
    "ffconst": {"name": "ffc", "nodes": [["p", "input", False], ["q", "1", True]], "edges": [], "bbs": {}},
    "ffimpl": {"name": "ffi", "nodes": [["p", "input", False], ["q", "buf", True]], "edges": [["p", "q"]], "bbs": {}},
}
SEEDS = {
    "empty": {"name": "c", "nodes": [], "edges": [], "bbs": {}},
    "small": {"name": "c", "nodes": [["a", "input", False], ["b", "and", True], ["c", "buf", False]],
              "edges": [["a", "b"]], "bbs": {}},
    "withbb": {"name": "c", "nodes": [["a", "input", False], ["u.p", "bb_input", False], ["u.q", "bb_output", False],
                                      ["c", "buf", True], ["b", "and", False]],
               "edges": [["a", "u.p"], ["u.q", "c"], ["a", "b"]], "bbs": {"u": ["ffd", ["p"], ["q"]]}},
    # the caller removed the pin node u.p and re-used its name for an ordinary gate (the registry clause exempts u)
    "replacedpin": {"name": "c", "nodes": [["a", "input", False], ["b", "input", False], ["u.p", "and", False], ["u.q", "bb_output", False],
                                           ["c", "buf", True]],
                    "edges": [["a", "u.p"], ["b", "u.p"], ["u.q", "c"]], "bbs": {"u": ["ffd", ["p"], ["q"]]}, "removed_pins": ["u.p"]},
    # ... or for a node carrying the OTHER pin type, with a driver
    "replacedpin2": {"name": "c", "nodes": [["a", "input", False], ["b", "input", False], ["u.p", "bb_input", False], ["u.q", "bb_input", False]],
                     "edges": [["a", "u.p"], ["b", "u.q"]], "bbs": {"u": ["ffd", ["p"], ["q"]]}, "removed_pins": ["u.q"]},
    "nestedpins": {"name": "c", "nodes": [["a", "input", False], ["c", "buf", True], ["d", "buf", True],
                                          ["w.x", "bb_input", False], ["w.f.q", "bb_output", False], ["w.o", "bb_output", False],
                                          ["w2.x", "bb_input", False], ["w2.f.p", "bb_output", False], ["w2.o", "bb_output", False]],
                   "edges": [["a", "w.x"], ["w.f.q", "c"], ["a", "w2.x"], ["w2.f.p", "d"]],
                   "bbs": {"w": ["pintop", ["x"], ["f.q", "o"]], "w2": ["pintop2", ["x"], ["f.p", "o"]]}},
}


def alphabet():
    ops = []
    for n in ["a", "b", "", "1x", "u.p"]:
        for t in ["input", "and", "buf", "bb_output", "foo"]:
            ops.append(["add", n, t, None, None, False])
    # type arguments that differ from a supported type only by case / blanks, or are not strings at all
    for t in ["AND", "Not", " or", "INPUT", "buf ", 0, 1, None, "Bb_input"]:
        ops.append(["add", "d", t, None, None, False])
        ops.append(["add", "d", t, ["a", "b"], None, False])
    ops += [["add", "b", "and", ["a", "zz"], ["c"], False], ["add", "b", "buf", ["a", "c"], None, False],
            ["add", "b", "and", ["a"], ["c"], False], ["add", "b", "not", ["a"], ["a"], False],
            ["add", "a", "and", ["a"], None, True], ["add", "b", "or", None, ["zz"], False],
            ["add", "b", "and", ["zz"], ["c"], False], ["add", "a", "buf", ["b"], ["c"], True],
            ["add", "d", "and", ["zz"], ["c"], False], ["add", "d", "and", ["a"], ["a"], False], ["add", "v.q", "buf", None, None, False],
            ["add", "d", "buf", ["a", "b"], ["c"], False], ["add", "d", "xor", ["u.p"], ["c"], True]]
    for us, vs in [("a", "b"), ("b", "a"), ("a", "a"), (["a", "c"], "b"), ("a", ["b", "c"]), ("u.q", "c"), ("u.q", "b"),
                   ("a", "u.p"), ("u.p", "b"), ("zz", "a"), (["a", "a"], "c"), ("c", "c"), ([], "a"), ("u.q", ["c", "b"]),
                   (["a", "u.p"], "b"), (["a", "zz"], "b"), (["c", "u.q"], "b"), ("a", ["b", "a"]), (["a", "c"], ["b", "u.p"]),
                   (["a", "b"], ["b", "c"]), (["c", "a"], "u.p")]:
        ops.append(["connect", us, vs])
    ops += [["disconnect", "a", "b"], ["disconnect", "zz", "a"], ["remove", "a"], ["remove", ["u.p"]], ["remove", "zz"],
            ["set_output", "a", True], ["set_output", "zz", True], ["set_output", ["b", "c"], False]]
    ops += [["add_blackbox", "ffd", "u", {"p": "a", "q": "c"}], ["add_blackbox", "ffd", "v", {"p": "a", "q": "b"}],
            ["add_blackbox", "ffd", "v", {"q": "c", "p": "zz"}], ["add_blackbox", "ffd", "v", {"zz": "a"}],
            ["add_blackbox", "wide", "u", {"p": "a", "r": "a", "q": "c"}], ["add_blackbox", "ffd", "w", None],
            ["add_blackbox", "wide", "v", {"q": "c", "s": "c"}]]
    ops += [["add_subcircuit", "and2", "s", {"x": "a", "y": "a", "o": "c"}], ["add_subcircuit", "and2", "s", {"x": "zz"}],
            ["add_subcircuit", "and2", "s", {"o": "a"}], ["add_subcircuit", "inv", "u", {"p": "a"}],
            ["add_subcircuit", "withbb", "s", {"x": "a", "o": "c"}], ["add_subcircuit", "and2", "s", {"x": "a", "o": "b", "y": "zz"}],
            ["add_subcircuit", "and2", "s", {"zz": "a"}]]
    ops += [["fill_blackbox", "w", "pinout"], ["fill_blackbox", "w2", "pinin_out"], ["add_subcircuit", "pinout", "s", {"f.q": "c"}],
            ["add_subcircuit", "pinin_out", "s", {"f.p": "c", "x": "a"}]]
    ops += [["fill_blackbox", "u", "inv"], ["fill_blackbox", "u", "ffconst"]]
    ops += [["fill_blackbox", "u", "ffimpl"], ["fill_blackbox", "u", "and2"], ["fill_blackbox", "zz", "ffimpl"],
            ["fill_blackbox", "v", "ffimpl"]]
    return ops


def rand_op(rng):
    def nm():
        return rng.choice(NAMES + ["zz"])

    def nms():
        r = rng.random()
        if r < 0.5:
            return nm()
        return [nm() for _ in range(rng.randint(0, 3))]
    k = rng.random()
    if k < 0.3:
        return ["add", nm(), rng.choice(TYPES), rng.choice([None, nms()]), rng.choice([None, nms()]), rng.random() < 0.3]
    if k < 0.5:
        return ["connect", nms(), nms()]
    if k < 0.58:
        return ["disconnect", nms(), nms()]
    if k < 0.66:
        return ["remove", nms()]
    if k < 0.72:
        return ["set_output", nms(), rng.random() < 0.7]
    if k < 0.84:
        bb = rng.choice(sorted(BBS))
        pins = BBS[bb][1] + BBS[bb][2] + ["zz"]
        conns = {p: nm() for p in pins if rng.random() < 0.5}
        return ["add_blackbox", bb, rng.choice(["u", "v", "a"]), conns or None]
    if k < 0.94:
        sub = rng.choice(sorted(SUBS))
        io = [r[0] for r in SUBS[sub]["nodes"] if r[1] == "input" or r[2]] + ["zz"]
        conns = {p: nm() for p in io if rng.random() < 0.5}
        return ["add_subcircuit", sub, rng.choice(["s", "u", "a"]), conns or None]
    return ["fill_blackbox", rng.choice(["u", "v", "zz"]), rng.choice(["ffimpl", "inv", "and2"])]


def cases(tier, seed):
    ops = alphabet()
    for sname in ("empty", "small", "withbb", "nestedpins", "replacedpin", "replacedpin2"):
        for o in ops:
            yield {"seed": sname, "ops": [o]}
    pairs = list(itertools.product(range(len(ops)), repeat=2))
    rng = gen.rng_for(seed, "c07")
    if tier == "quick":
        pairs = rng.sample(pairs, 2500)
    for i, j in pairs:
        yield {"seed": "small" if (i + j) % 3 else "withbb", "ops": [ops[i], ops[j]]}
    n_rand = 1500 if tier == "quick" else 30000
    for i in range(n_rand):
        yield {"seed": rng.choice(["empty", "small", "withbb", "nestedpins", "replacedpin", "replacedpin2"]),
               "ops": [rand_op(rng) if rng.random() < 0.6 else rng.choice(ops) for _ in range(rng.randint(3, 12))]}


def apply(c, op):
    k = op[0]
    if k == "add":
        _, n, t, fi, fo, uid = op
        return c.add(n, t, fanin=fi, fanout=fo, uid=uid)
    if k == "connect":
        return c.connect(op[1], op[2])
    if k == "disconnect":
        return c.disconnect(op[1], op[2])
    if k == "remove":
        return c.remove(op[1])
    if k == "set_output":
        return c.set_output(op[1], op[2])
    if k == "add_blackbox":
        return c.add_blackbox(circ.blackbox(*BBS[op[1]]), op[2], op[3])
    if k == "add_subcircuit":
        return c.add_subcircuit(circ.build(SUBS[op[1]]), op[2], op[3])
    if k == "fill_blackbox":
        return c.fill_blackbox(op[1], circ.build(SUBS[op[2]]))
    raise AssertionError(k)


def run_case(case):
    if "seed_cd" in case:   # an explicit start state (replay of a verifier counter-model)
        c = circ.build(case["seed_cd"])
        removed_pins = set(case.get("removed_pins", []))
        if spec.wired_violations(c, removed_pins=removed_pins):
            return {"nontrivial": False, "failures": []}
    else:
        c = circ.build(SEEDS[case["seed"]])
        removed_pins = set(SEEDS[case["seed"]].get("removed_pins", []))  # pins the (earlier) caller removed
    assert not spec.wired_violations(c, removed_pins=removed_pins)
    fails = []
    n_ok = n_rej = 0
    for step, op in enumerate(case["ops"]):
        e0 = set(c.graph.edges)
        nodes0 = {n: dict(c.graph.nodes[n]) for n in c.graph.nodes}
        bb0 = dict(c.blackboxes)
        tag = f"step {step} {op!r}"
        if op[0] == "remove":
            tgt = [op[1]] if isinstance(op[1], str) else list(op[1])
            removed_pins |= {t for t in tgt if t in c.graph and c.graph.nodes[t].get("type") in ("bb_input", "bb_output")}
        try:
            res = apply(c, op)
            rejected = None
            n_ok += 1
        except Exception as ex:  # noqa
            rejected = ex
            n_rej += 1
        wv = spec.wired_violations(c, removed_pins=removed_pins)
        if wv:
            fails.append({"kind": f"not-wired-after-{op[0]}" + ("-rejected" if rejected else ""), "msg": f"{tag}: {wv[:3]} ({rejected!r})"})
        if rejected is not None:
            new_edges = set(c.graph.edges) - e0
            if new_edges:
                fails.append({"kind": f"rejected-{op[0]}-added-edge", "msg": f"{tag}: raised {rejected!r} but added {sorted(new_edges)[:3]}"})
            if not isinstance(rejected, ValueError):
                lookup = isinstance(rejected, (KeyError, nx.NetworkXError)) and op[0] in ("set_output",)
                if not lookup:
                    fails.append({"kind": f"rejected-{op[0]}-raises-{type(rejected).__name__}", "msg": f"{tag}: {rejected!r}"})
        elif op[0] == "add" and op[5]:
            if res in nodes0:
                fails.append({"kind": "add-uid-reused-existing-name", "msg": f"{tag}: returned {res!r}"})
            for n, a in nodes0.items():
                if n not in c.graph or dict(c.graph.nodes[n]) != a:
                    fails.append({"kind": "add-uid-changed-existing-node", "msg": f"{tag}: node {n!r}"})
                    break
        if fails:
            break
    return {"nontrivial": n_ok > 0 and n_rej > 0, "failures": fails}
