"""C06 bounded stand-in: add_subcircuit / add_blackbox+fill_blackbox / strip_blackboxes.

The expected composite is built independently from the property statement
(prefix-renamed copy, child inputs become buffers driven by the attached nets,
child outputs drive the attached buffers, sub-blackboxes carried over) and the
real result is compared with it *semantically* (same node set, io lists,
registry, and the same set of consistent valuations over all nodes)."""
import copy

import networkx as nx

from vlib import circ, gen, oracle, spec, sem
import circuitgraph as cg

RULE = ("parents: random lint-clean circuits (with/without own blackbox) having spare undriven-buffer-free nets; "
        "children: random lint-clean circuits incl. feed-through pins (input marked output), constants, nested "
        "blackboxes; connection maps: every child input attached to a random parent net or left open, outputs "
        "attached to fresh parent buffers or left open; repeated instantiation under two names; fill_blackbox after "
        "add_blackbox; strip_blackboxes with ignore_pins in {none, one pin name, suffix-sharing pin names}; "
        "non-trivial = child has a gate and at least one connection"
        "; plus: instance names containing dots; node types of the spliced copy are compared")
BOUND = "parent <= 8 nodes, child <= 7 nodes, composite free signals <= 12; 4/16 hash seeds"


def cases(tier, seed):
    rng = gen.rng_for(seed, "c06")
    n = 200 if tier == "quick" else 4000
    for i in range(n):
        parent = gen.random_circuit(rng, n_in=rng.randint(1, 3), n_gates=rng.randint(1, 3), max_fanin=2, p_const=0.2,
                                    n_bb=rng.choice([0, 0, 1]), p_out=0.4)
        child = gen.random_circuit(rng, n_in=rng.randint(1, 3), n_gates=rng.randint(1, 3), max_fanin=3, p_const=0.3,
                                   n_bb=rng.choice([0, 0, 0, 1]), p_out=0.5, allow_input_output=rng.random() < 0.3,
                                   name="child")
        inst = rng.choice(["s", "u0", "i0", "core.u0", "a.b"])
        if rng.random() < 0.3:
            # parent io / gates whose names already start with "<instance>_" (alu_en next to an instance alu)
            cnames = {r[0] for r in child["nodes"]}
            plain = [r[0] for r in parent["nodes"] if "." not in r[0]]
            ren = {}
            for victim in rng.sample(plain, min(len(plain), rng.randint(1, 2))):
                new = f"{inst}_{rng.choice(['en', 'valid', 'x9', 'q'])}"
                if new not in ren.values() and new[len(inst) + 1:] not in cnames and new not in plain:
                    ren[victim] = new
            r_ = lambda n: ren.get(n, n)
            parent = dict(parent, nodes=[[r_(n), t, o] for n, t, o in parent["nodes"]], edges=[[r_(u), r_(v)] for u, v in parent["edges"]])
        pnames = [r[0] for r in parent["nodes"] if r[1] not in ("bb_input",)]
        cin = [r[0] for r in child["nodes"] if r[1] == "input"]
        cout = [r[0] for r in child["nodes"] if r[2] and r[1] != "input"]
        conns = {}
        k = 0
        for x in cin:
            if rng.random() < 0.8:
                conns[x] = rng.choice([p for p in pnames if parent_type(parent, p) != "bb_output"] or pnames)
        outbufs = []
        for o in cout:
            if rng.random() < 0.7:
                b = f"pb{k}"
                k += 1
                outbufs.append(b)
                conns[o] = b
        yield {"f": "add_subcircuit", "parent": parent, "child": child, "name": inst,
               "conns": conns, "outbufs": outbufs, "twice": rng.random() < 0.3}
    for i in range(n):
        child = gen.random_circuit(rng, n_in=rng.randint(1, 3), n_gates=rng.randint(1, 3), max_fanin=3, p_const=0.2,
                                   n_bb=rng.choice([0, 0, 1]), p_out=0.0, name="impl")
        # exactly the gate sinks are outputs; make sure >=1 output that is not an input
        parent = gen.random_circuit(rng, n_in=rng.randint(1, 3), n_gates=rng.randint(1, 3), max_fanin=2, p_out=0.4)
        yield {"f": "fill_blackbox", "parent": parent, "child": child, "name": rng.choice(["u", "ff0", "core.u0", "x.y.z"]),
               "salt": i, "open_in": rng.random() < 0.2, "open_out": rng.random() < 0.3}
    for i in range(n):
        pins_sets = rng.choice([(["d", "clk"], ["q"]), (["CK", "GCK", "D"], ["Q", "QN"]), (["a"], ["a_b", "b"]), (["b_c", "c"], ["q"])])
        yield {"f": "strip_blackboxes", "salt": i, "pins": pins_sets,
               "ignore": rng.choice([None, None, pins_sets[0][-1], [pins_sets[0][0]], [pins_sets[1][-1]], "CK"]),
               "insts": rng.choice([["u"], ["u", "v"], ["a", "a_b"]])}


def parent_type(cd, n):
    return [r[1] for r in cd["nodes"] if r[0] == n][0]


def _expected_add(parent_cd, child_cd, name, conns, outbufs):
    e = copy.deepcopy(parent_cd)
    for b in outbufs:
        e["nodes"].append([b, "buf", False])
    pre = lambda x: f"{name}_{x}"
    for n, t, o in child_cd["nodes"]:
        e["nodes"].append([pre(n), "buf" if t == "input" else t, False])
    for u, v in child_cd["edges"]:
        e["edges"].append([pre(u), pre(v)])
    cin = {r[0] for r in child_cd["nodes"] if r[1] == "input"}
    for k, x in conns.items():
        if k in cin:
            e["edges"].append([x, pre(k)])
        else:
            e["edges"].append([pre(k), x])
    e["bbs"] = dict(e["bbs"])
    for inst, bb in child_cd["bbs"].items():
        e["bbs"][pre(inst)] = bb
    return e


def _cmp(result, exp_cd, what, fails, check_io=True):
    exp = circ.build(exp_cd)
    if set(result.graph.nodes) != set(exp.graph.nodes):
        fails.append({"kind": f"{what}-node-set", "msg": f"extra {sorted(set(result.graph) - set(exp.graph))} missing {sorted(set(exp.graph) - set(result.graph))}"})
        return
    if check_io and (result.inputs() != exp.inputs() or result.outputs() != exp.outputs()):
        fails.append({"kind": f"{what}-io-lists", "msg": f"inputs {sorted(result.inputs())} vs {sorted(exp.inputs())}; outputs {sorted(result.outputs())} vs {sorted(exp.outputs())}"})
    # a renamed COPY: every node keeps its type (child inputs become buffers), in particular carried-over blackbox pins stay pins
    tdiff = [(n, result.graph.nodes[n].get("type"), exp.graph.nodes[n].get("type")) for n in sorted(exp.graph.nodes)
             if result.graph.nodes[n].get("type") != exp.graph.nodes[n].get("type")]
    if tdiff:
        fails.append({"kind": f"{what}-node-types", "msg": f"(node, got, expected): {tdiff[:4]}"})
    rb = {k: (b.name, frozenset(b.inputs()), frozenset(b.outputs())) for k, b in result.blackboxes.items()}
    eb = {k: (b.name, frozenset(b.inputs()), frozenset(b.outputs())) for k, b in exp.blackboxes.items()}
    if rb != eb:
        fails.append({"kind": f"{what}-blackbox-registry", "msg": f"{sorted(rb)} vs {sorted(eb)}"})
    try:
        ok, why = sem.refines(result, exp)
    except oracle.OracleError:
        ok, why = True, None
    if not ok:
        fails.append({"kind": f"{what}-function-differs-from-substitution", "msg": why})


def run_case(case):
    f = case["f"]
    fails = []
    if f == "add_subcircuit":
        pcd = copy.deepcopy(case["parent"])
        for b in case["outbufs"]:
            pcd["nodes"].append([b, "buf", False])
        p = circ.build(pcd)
        ch = circ.build(case["child"])
        if not spec.lintclean(circ.build(case["parent"])) or not spec.lintclean(ch):
            return {"nontrivial": False, "failures": []}
        name = case["name"]
        snap = circ.snapshot(ch)
        clash = any(f"{name}_{n}" in p.graph for n in ch.graph) or any(f"{name}_{b}" in p.blackboxes for b in ch.blackboxes)
        try:
            p.add_subcircuit(ch, name, dict(case["conns"]))
        except ValueError as ex:
            if clash:
                return {"nontrivial": False, "failures": []}
            return {"nontrivial": True, "failures": [{"kind": "add_subcircuit-unexpected-ValueError", "msg": repr(ex)}]}
        exp = _expected_add(case["parent"], case["child"], name, case["conns"], case["outbufs"])
        _cmp(p, exp, "add_subcircuit", fails)
        if case.get("twice") and not fails:
            name2 = name + "x"
            if not any(f"{name2}_{n}" in p.graph for n in ch.graph):
                p.add_subcircuit(ch, name2, {k: v for k, v in case["conns"].items() if v not in case["outbufs"]})
                exp2 = _expected_add(exp, case["child"], name2, {k: v for k, v in case["conns"].items() if v not in case["outbufs"]}, [])
                _cmp(p, exp2, "add_subcircuit-twice", fails)
        if circ.snapshot(ch) != snap:
            fails.append({"kind": "argument-mutated", "msg": "add_subcircuit changed the child circuit"})
        nontrivial = bool(case["conns"]) and any(r[1] in gen.GATES for r in case["child"]["nodes"])
        return {"nontrivial": nontrivial, "failures": fails}

    if f == "fill_blackbox":
        rng = gen.rng_for(case["salt"], "fill")
        child_cd = copy.deepcopy(case["child"])
        drivers = {u for u, _ in child_cd["edges"]}
        for r in child_cd["nodes"]:
            r[2] = r[1] in gen.GATES and r[0] not in drivers
        if not any(r[2] for r in child_cd["nodes"]):
            return {"nontrivial": False, "failures": []}
        ch = circ.build(child_cd)
        par_cd = copy.deepcopy(case["parent"])
        if not spec.lintclean(circ.build(par_cd)) or not spec.lintclean(ch):
            return {"nontrivial": False, "failures": []}
        name = case["name"]
        cin = sorted(ch.inputs())
        cout = sorted(ch.outputs())
        pnames = [r[0] for r in par_cd["nodes"] if r[1] not in ("bb_input", "bb_output")]
        p = circ.build(par_cd)
        bb = circ.blackbox("implbb", cin, cout)
        conns = {}
        exp = copy.deepcopy(par_cd)
        pre = lambda x: f"{name}_{x}"
        for k, o in enumerate(cout):
            if case["open_out"] and k == 0:
                continue
            b = f"fb{k}"
            p.add(b, "buf", output=True)
            exp["nodes"].append([b, "buf", True])
            conns[o] = b
        for i in cin:
            if case["open_in"] and i == cin[0]:
                continue
            conns[i] = rng.choice(pnames)
        if any(pre(n) in p.graph for n in ch.graph) or name in p.blackboxes:
            return {"nontrivial": False, "failures": []}
        p.add_blackbox(bb, name, dict(conns))
        try:
            p.fill_blackbox(name, ch)
        except ValueError as ex:
            return {"nontrivial": True, "failures": [{"kind": "fill_blackbox-unexpected-ValueError", "msg": repr(ex)}]}
        for n, t, o in child_cd["nodes"]:
            exp["nodes"].append([pre(n), "buf" if t == "input" else t, False])
        for u, v in child_cd["edges"]:
            exp["edges"].append([pre(u), pre(v)])
        for k, x in conns.items():
            if k in cin:
                exp["edges"].append([x, pre(k)])
            else:
                exp["edges"].append([pre(k), x])
        exp["bbs"] = dict(exp["bbs"])
        for inst, b2 in child_cd["bbs"].items():
            exp["bbs"][pre(inst)] = b2
        _cmp(p, exp, "fill_blackbox", fails)
        if name in p.blackboxes:
            fails.append({"kind": "fill_blackbox-instance-still-recorded", "msg": name})
        return {"nontrivial": True, "failures": fails}

    if f == "strip_blackboxes":
        rng = gen.rng_for(case["salt"], "strip")
        pins_in, pins_out = case["pins"]
        nodes = [["i0", "input", False], ["i1", "input", False], ["g0", "and", True]]
        edges = [["i0", "g0"], ["i1", "g0"]]
        bbs = {}
        exp_nodes = [list(r) for r in nodes]
        exp_edges = [list(e) for e in edges]
        ign = case["ignore"]
        ign_l = [] if not ign else ([ign] if isinstance(ign, str) else list(ign))
        new_names = []
        for k, inst in enumerate(case["insts"]):
            bbs[inst] = ["bbx", pins_in, pins_out]
            for p_ in pins_in:
                nodes.append([f"{inst}.{p_}", "bb_input", False])
                drv = rng.choice(["i0", "i1", "g0"])
                edges.append([drv, f"{inst}.{p_}"])
                if p_ not in ign_l:
                    nn = f"{inst}.{p_}".replace(".", "_")
                    exp_nodes.append([nn, "buf", True])
                    exp_edges.append([drv, nn])
                    new_names.append(nn)
            for p_ in pins_out:
                nodes.append([f"{inst}.{p_}", "bb_output", False])
                ld = f"l{k}_{p_}"
                nodes.append([ld, "buf", True])
                edges.append([f"{inst}.{p_}", ld])
                exp_nodes.append([ld, "buf", True])
                if p_ not in ign_l:
                    nn = f"{inst}.{p_}".replace(".", "_")
                    exp_nodes.append([nn, "input", False])
                    exp_edges.append([nn, ld])
                    new_names.append(nn)
        cd = {"name": "c", "nodes": nodes, "edges": edges, "bbs": bbs}
        c = circ.build(cd)
        assert spec.lintclean(c), spec.lint_violations(c)
        snap = circ.snapshot(c)
        existing = {r[0] for r in nodes}
        collide = len(set(new_names)) != len(new_names) or bool(set(new_names) & existing)
        try:
            r = cg.tx.strip_blackboxes(c, ignore_pins=ign)
        except ValueError as ex:
            if collide:
                return {"nontrivial": True, "failures": []}
            return {"nontrivial": True, "failures": [{"kind": "strip_blackboxes-unexpected-ValueError", "msg": repr(ex)}]}
        if collide:
            fails.append({"kind": "strip_blackboxes-merges-colliding-pin-names", "msg": f"new names {sorted(new_names)} collide but no error was raised"})
        else:
            exp = {"name": "c", "nodes": exp_nodes, "edges": exp_edges, "bbs": {}}
            _cmp(r, exp, "strip_blackboxes", fails)
        if circ.snapshot(c) != snap:
            fails.append({"kind": "argument-mutated", "msg": "strip_blackboxes changed its argument"})
        return {"nontrivial": True, "failures": fails}
    raise AssertionError(f)
