"""pysat.solvers stand-in: a small complete DPLL solver (unit propagation +
chronological backtracking) with the part of the Solver interface sat.py uses:
Solver(bootstrap_with=...), add_clause, solve, get_model.

Contract (DESIGN 5.1): solve() is sound and complete for the clauses added so
far; get_model() returns a list m with m[i-1] == +-i for every variable
i <= the largest variable seen; an empty clause makes the instance UNSAT."""


class _DPLL:
    def __init__(self, bootstrap_with=None, **kwargs):
        self.clauses = []
        self.nv = 0
        self.occ = {}
        self.empty = False
        self.model = None
        for cl in bootstrap_with or []:
            self.add_clause(cl)

    def add_clause(self, clause, no_return=True):
        clause = list(dict.fromkeys(int(l) for l in clause))
        if not clause:
            self.empty = True
            return
        s = set(clause)
        for l in clause:
            if abs(l) > self.nv:
                self.nv = abs(l)
        if any(-l in s for l in clause):
            return  # tautology
        idx = len(self.clauses)
        self.clauses.append(clause)
        for l in clause:
            self.occ.setdefault(l, []).append(idx)

    def solve(self, assumptions=()):
        self.model = None
        if self.empty:
            return False
        nv = self.nv
        val = [0] * (nv + 1)  # 0 unassigned, 1 true, -1 false
        trail = []
        clauses = self.clauses
        occ = self.occ

        def assign(lit):
            v = abs(lit)
            s = 1 if lit > 0 else -1
            if val[v] == s:
                return True
            if val[v] == -s:
                return False
            val[v] = s
            trail.append(v)
            return True

        def propagate(start):
            i = start
            while i < len(trail):
                v = trail[i]
                i += 1
                falselit = -v if val[v] == 1 else v
                for ci in occ.get(falselit, ()):
                    cl = clauses[ci]
                    unassigned = None
                    n_un = 0
                    sat = False
                    for l in cl:
                        x = val[abs(l)]
                        if x == 0:
                            n_un += 1
                            unassigned = l
                            if n_un > 1:
                                break
                        elif (x == 1) == (l > 0):
                            sat = True
                            break
                    if sat or n_un > 1:
                        continue
                    if n_un == 0:
                        return False
                    if not assign(unassigned):
                        return False
            return True

        # initial units
        for cl in clauses:
            if len(cl) == 1:
                if not assign(cl[0]):
                    return False
        for l in assumptions:
            if not assign(l):
                return False
        if not propagate(0):
            return False
        # full check of clauses that have no assigned literal yet is implicit in search
        decisions = []  # (trail_len_before, var, tried_both)
        while True:
            # pick a variable
            v = 0
            for cand in range(1, nv + 1):
                if val[cand] == 0:
                    v = cand
                    break
            if v == 0:
                # verify (cheap safety net)
                for cl in clauses:
                    if not any((val[abs(l)] == 1) == (l > 0) for l in cl):
                        raise AssertionError("shim solver internal error")
                self.model = [i if val[i] == 1 else -i for i in range(1, nv + 1)]
                return True
            decisions.append([len(trail), v, False])
            ok = assign(-v) and propagate(len(trail) - 1)
            while not ok:
                # backtrack
                while decisions and decisions[-1][2]:
                    tl, _, _ = decisions.pop()
                    while len(trail) > tl:
                        val[trail.pop()] = 0
                if not decisions:
                    return False
                tl, dv, _ = decisions[-1]
                while len(trail) > tl:
                    val[trail.pop()] = 0
                decisions[-1][2] = True
                ok = assign(dv) and propagate(len(trail) - 1)

    def get_model(self):
        return None if self.model is None else list(self.model)

    def delete(self):
        pass

    def __enter__(self):
        return self

    def __exit__(self, *a):
        self.delete()


class Cadical153(_DPLL):
    pass


class Cadical(_DPLL):
    pass


class Glucose3(_DPLL):
    pass


Solver = _DPLL
