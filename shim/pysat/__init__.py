"""Stand-in for python-sat (absent from the sandbox), written to the assumed
contract in DESIGN.md section 5.1.  TRUSTED STUB: used only to *run* the real
sat.py (bounded checks, replay); proofs rely on the contract, not on this code.
It is cross-checked against z3 by the C01 check on every run."""
