"""pysat.formula stand-in: IDPool and CNF with the interface sat.py uses."""


class IDPool:
    def __init__(self, start_from=1, occupied=None):
        self.top = start_from - 1
        self.obj2id = {}
        self.id2obj = {}

    def id(self, obj=None):
        if obj is None:
            self.top += 1
            return self.top
        try:
            return self.obj2id[obj]
        except KeyError:
            self.top += 1
            self.obj2id[obj] = self.top
            self.id2obj[self.top] = obj
            return self.top

    def obj(self, vid):
        return self.id2obj.get(vid)


class CNF:
    def __init__(self, from_clauses=None):
        self.clauses = []
        self.nv = 0
        for cl in from_clauses or []:
            self.append(cl)

    def append(self, clause):
        clause = list(clause)
        for lit in clause:
            if not isinstance(lit, int) or isinstance(lit, bool) or lit == 0:
                raise ValueError(f"bad literal {lit!r}")
            if abs(lit) > self.nv:
                self.nv = abs(lit)
        self.clauses.append(clause)

    def extend(self, clauses):
        for cl in clauses:
            self.append(cl)

    def __iter__(self):
        return iter(self.clauses)

    def __len__(self):
        return len(self.clauses)
