"""Serialisable circuit descriptions, builders and deep snapshots.

A circuit description (cdict) is JSON-able:
  {"name": str, "nodes": [[name, type_or_None, output_or_None], ...],
   "edges": [[u, v], ...], "bbs": {inst: [bbname, [ins], [outs]]}}
Circuits are built *directly on the networkx graph* (not through the API under
test), so ill-formed graphs can be represented too."""
import networkx as nx

import vlib  # noqa: F401  (path setup)
import circuitgraph as cg

_BB_CACHE = {}


def blackbox(bbname, ins, outs):
    key = (bbname, tuple(sorted(ins)), tuple(sorted(outs)))
    if key not in _BB_CACHE:
        _BB_CACHE[key] = cg.BlackBox(bbname, list(ins), list(outs))
    return _BB_CACHE[key]


def build(cd):
    g = nx.DiGraph()
    for n, t, o in cd["nodes"]:
        attrs = {}
        if t is not None:
            attrs["type"] = t
        if o is not None:
            attrs["output"] = o
        g.add_node(n, **attrs)
    for u, v in cd.get("edges", []):
        g.add_edge(u, v)
    bbs = {}
    for inst, (bbname, ins, outs) in cd.get("bbs", {}).items():
        bbs[inst] = blackbox(bbname, ins, outs)
    c = cg.Circuit(name=cd.get("name") or "circuit")
    c.graph = g
    c.blackboxes = bbs
    return c


def describe(c):
    nodes = []
    for n in sorted(c.graph.nodes, key=repr):
        a = c.graph.nodes[n]
        nodes.append([n, a.get("type"), a.get("output")])
    return {
        "name": c.name,
        "nodes": nodes,
        "edges": sorted([list(e) for e in c.graph.edges], key=repr),
        "bbs": {
            k: [b.name, sorted(b.inputs()), sorted(b.outputs())]
            for k, b in sorted(c.blackboxes.items())
        },
    }


def snapshot(c):
    """Deep, hashable snapshot of everything C19 speaks about."""
    return (
        c.name,
        frozenset(
            (n, frozenset((k, repr(v)) for k, v in c.graph.nodes[n].items()))
            for n in c.graph.nodes
        ),
        frozenset(c.graph.edges),
        frozenset(
            (k, id(b), b.name, frozenset(b.inputs()), frozenset(b.outputs()))
            for k, b in c.blackboxes.items()
        ),
    )


def same_structure(a, b, ignore_name=False):
    sa, sb = snapshot(a), snapshot(b)
    if ignore_name:
        sa, sb = sa[1:], sb[1:]
    # blackbox identity is not part of structure equality: compare by value
    def strip(s):
        *rest, bbs = s
        return tuple(rest) + (frozenset((k, nm, i, o) for k, _, nm, i, o in bbs),)
    return strip(sa) == strip(sb)


def canon_key(cd):
    import hashlib, json
    return hashlib.sha1(json.dumps(cd, sort_keys=True, default=str).encode()).hexdigest()[:16]
