"""Relational/functional comparison helpers built on vlib.oracle."""
import itertools

import networkx as nx

from vlib import oracle


def valuations_proj(c, nodes, fixed=None, x_free=False):
    nodes = list(nodes)
    return {tuple(v[n] for n in nodes) for v in oracle.consistent_valuations(c, fixed, x_free)}


def refines(c_new, c_old, nodes=None, x_free=False):
    """R1+R2 of DESIGN 4.4 decided by enumeration: the consistent valuations of
    c_new projected on `nodes` (default: all nodes of c_old) are exactly the
    consistent valuations of c_old projected on them.  Returns (ok, witness)."""
    nodes = sorted(c_old.graph.nodes if nodes is None else nodes, key=repr)
    missing = [n for n in nodes if n not in c_new.graph]
    if missing:
        return False, f"nodes missing from result: {missing}"
    a = valuations_proj(c_new, nodes, x_free=x_free)
    b = valuations_proj(c_old, nodes, x_free=x_free)
    if a == b:
        return True, None
    extra = sorted(a - b)[:1]
    lost = sorted(b - a)[:1]
    return False, f"over nodes {nodes}: valuations only in result {extra}, only in original {lost}"


def truth_tables(c, nodes, free=None, x_free=False):
    """For an acyclic circuit: node -> tuple of values over all assignments of
    `free` (default: its free nodes, sorted)."""
    free = oracle.free_nodes(c, x_free) if free is None else list(free)
    tabs = {n: [] for n in nodes}
    for a in oracle.all_input_vectors(free):
        v = oracle.simulate(c, a, x_free)
        for n in nodes:
            tabs[n].append(v[n])
    return free, {n: tuple(t) for n, t in tabs.items()}


def same_functions(c_new, c_old, nodes, x_free=False):
    """Acyclic circuits over the same free nodes: every node of `nodes` has the
    same truth table in both.  Extra free nodes of c_new must not matter."""
    f_old = oracle.free_nodes(c_old, x_free)
    f_new = oracle.free_nodes(c_new, x_free)
    if not set(f_old) <= set(f_new):
        return False, f"free signals lost: {sorted(set(f_old) - set(f_new))}"
    extra = [n for n in f_new if n not in f_old]
    for a in oracle.all_input_vectors(f_old):
        v_old = oracle.simulate(c_old, a, x_free)
        for e in oracle.all_input_vectors(extra):
            v_new = oracle.simulate(c_new, {**a, **e}, x_free)
            for n in nodes:
                if v_new[n] != v_old[n]:
                    return False, f"node {n}: {v_new[n]} vs original {v_old[n]} under {a} (extra free {e})"
    return True, None


def is_dag(c):
    return nx.is_directed_acyclic_graph(c.graph)
