"""Shared library of the /verif machinery (oracle, generators, harness)."""
import os
import sys

VERIF = os.path.dirname(os.path.dirname(os.path.abspath(__file__)))
REPO = os.environ.get("VERIF_REPO", "/repo")


def setup_paths():
    """Make `import circuitgraph` resolve to the working tree of /repo and
    `import pysat` to the stand-in (python-sat is absent from the sandbox)."""
    for p in (os.path.join(VERIF, "shim"), REPO, VERIF):
        if p in sys.path:
            sys.path.remove(p)
        sys.path.insert(0, p)
    shim_bin = os.path.join(VERIF, "shim", "bin")
    if shim_bin not in os.environ.get("PATH", "").split(os.pathsep):
        os.environ["PATH"] = shim_bin + os.pathsep + os.environ.get("PATH", "")


setup_paths()
