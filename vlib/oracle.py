"""Independent reference semantics for circuits (does NOT use circuitgraph.sat,
props or tx): the spec functions of DESIGN section 4.3 evaluated concretely.

gateok(c, v, n):  and/nand/or/nor/xor/xnor over the fan-in *set*; buf/not/
bb_input copy/invert their single driver (free when undriven); 0/1 fixed;
input/bb_output free; 'x' has no Boolean semantics (rejected unless x_free)."""
import itertools

import networkx as nx

FREE_TYPES = ("input", "bb_output")
SINGLE = ("buf", "not", "bb_input")
MULTI = ("and", "nand", "or", "nor", "xor", "xnor")


class OracleError(Exception):
    pass


def gate_value(t, vals):
    """Boolean function of gate type t on the list of fan-in values."""
    if t == "and":
        return all(vals)
    if t == "nand":
        return not all(vals)
    if t == "or":
        return any(vals)
    if t == "nor":
        return not any(vals)
    if t == "xor":
        return sum(1 for v in vals if v) % 2 == 1
    if t == "xnor":
        return sum(1 for v in vals if v) % 2 == 0
    if t in ("buf", "bb_input"):
        (v,) = vals
        return bool(v)
    if t == "not":
        (v,) = vals
        return not v
    if t == "0":
        return False
    if t == "1":
        return True
    raise OracleError(f"no Boolean semantics for type {t!r}")


def ntype(c, n):
    return c.graph.nodes[n].get("type")


def is_free(c, n, x_free=False):
    t = ntype(c, n)
    if t in FREE_TYPES:
        return True
    if t == "x":
        if x_free:
            return True
        raise OracleError(f"node {n!r} has type x")
    if t in SINGLE and c.graph.in_degree(n) == 0:
        return True
    return False


def free_nodes(c, x_free=False):
    return sorted((n for n in c.graph.nodes if is_free(c, n, x_free)), key=repr)


def node_ok(c, v, n, x_free=False):
    """gateok(c, v, n)."""
    if is_free(c, n, x_free):
        return True
    t = ntype(c, n)
    vals = [v[p] for p in c.graph.predecessors(n)]
    return v[n] == gate_value(t, vals)


def is_consistent(c, v, x_free=False):
    return all(node_ok(c, v, n, x_free) for n in c.graph.nodes)


def feedback_vertex_set(g):
    g = g.copy()
    fvs = []
    while True:
        try:
            cyc = nx.find_cycle(g)
        except nx.NetworkXNoCycle:
            return fvs
        # cut the node of the cycle with the largest degree
        nodes = {u for u, _ in cyc}
        n = max(sorted(nodes, key=repr), key=lambda x: g.in_degree(x) * g.out_degree(x))
        fvs.append(n)
        g.remove_node(n)


def consistent_valuations(c, fixed=None, x_free=False, cap_bits=22):
    """Yield every consistent valuation (dict node->bool) of c that agrees with
    the partial assignment `fixed`.  Exact for cyclic circuits too: values of the
    free nodes and of a feedback vertex set determine everything else."""
    fixed = {k: bool(v) for k, v in (fixed or {}).items()}
    g = c.graph
    free = free_nodes(c, x_free)
    fvs = [n for n in feedback_vertex_set(g) if n not in free]
    cut = g.copy()
    cut.remove_edges_from([(p, n) for n in fvs for p in list(g.predecessors(n))])
    order = [n for n in nx.topological_sort(cut)]
    choice = free + fvs
    if len(choice) > cap_bits:
        raise OracleError(f"too many free signals ({len(choice)})")
    pinned = {n: fixed[n] for n in choice if n in fixed}
    open_ = [n for n in choice if n not in pinned]
    chosen = set(choice)
    for bits in itertools.product((False, True), repeat=len(open_)):
        v = dict(pinned)
        v.update(zip(open_, bits))
        ok = True
        for n in order:
            if n in chosen:
                continue
            t = ntype(c, n)
            v[n] = gate_value(t, [v[p] for p in g.predecessors(n)])
        for n in fvs:
            if v[n] != gate_value(ntype(c, n), [v[p] for p in g.predecessors(n)]):
                ok = False
                break
        if ok and all(v[k] == b for k, b in fixed.items() if k in v):
            if all(k in v for k in fixed):
                yield v


def simulate(c, assignment, x_free=False):
    """The unique consistent valuation of an ACYCLIC circuit extending a total
    assignment of its free nodes."""
    free = free_nodes(c, x_free)
    missing = [n for n in free if n not in assignment]
    if missing:
        raise OracleError(f"free nodes unassigned: {missing}")
    v = {n: bool(assignment[n]) for n in free}
    for n in nx.topological_sort(c.graph):
        if n in v:
            continue
        v[n] = gate_value(ntype(c, n), [v[p] for p in c.graph.predecessors(n)])
    return v


def all_input_vectors(names):
    names = list(names)
    for bits in itertools.product((False, True), repeat=len(names)):
        yield dict(zip(names, bits))


def startpoints(c):
    return sorted((n for n in c.graph.nodes if ntype(c, n) in FREE_TYPES), key=repr)


def count_startpoint_models(c, assumptions=None, x_free=False):
    """|{sigma : startpoints -> Bool | some consistent valuation extends sigma and A}|."""
    sp = startpoints(c)
    seen = set()
    for v in consistent_valuations(c, assumptions, x_free):
        seen.add(tuple(v[s] for s in sp))
    return len(seen)


# ---- Kleene three-valued evaluation (C10) ---------------------------------
X = "X"


def kleene_gate(t, vals):
    if t in ("and", "nand"):
        if any(v is False for v in vals):
            r = False
        elif any(v == X for v in vals):
            r = X
        else:
            r = True
        if t == "nand" and r != X:
            r = not r
        return r
    if t in ("or", "nor"):
        if any(v is True for v in vals):
            r = True
        elif any(v == X for v in vals):
            r = X
        else:
            r = False
        if t == "nor" and r != X:
            r = not r
        return r
    if t in ("xor", "xnor"):
        if any(v == X for v in vals):
            return X
        return gate_value(t, vals)
    if t in ("buf", "bb_input"):
        (v,) = vals
        return v
    if t == "not":
        (v,) = vals
        return X if v == X else (not v)
    if t == "0":
        return False
    if t == "1":
        return True
    raise OracleError(f"no Kleene semantics for {t!r}")


def kleene(c, assignment):
    v = dict(assignment)
    for n in nx.topological_sort(c.graph):
        if n in v:
            continue
        v[n] = kleene_gate(ntype(c, n), [v[p] for p in c.graph.predecessors(n)])
    return v


# ---- structural helpers used as oracles for C12 ----------------------------
def longest_to_sink(g, ns):
    """longest path length (edges) from any node of ns going forward."""
    memo = {}

    def go(n):
        if n not in memo:
            memo[n] = max((1 + go(s) for s in g.successors(n)), default=0)
        return memo[n]

    return max(go(n) for n in ns)


def longest_from_source(g, ns):
    return longest_to_sink(g.reverse(copy=True), ns)
