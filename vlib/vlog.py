"""Independent model of the structural Verilog subset of C02/C14: netlist ASTs,
a text renderer with layout/comment fuzzing, and an evaluator written from the
language definition (1-bit nets, two-valued).

Netlist AST (JSON-able):
 {"name": str, "inputs": [net], "outputs": [net], "wires": [net],
  "items": [ ["gate", type, [[inst, out, [operand_expr...]], ...]],      # several instances per statement
             ["assign", [[lhs, expr], ...]],
             ["bb", bbname, inst, {pin: net | None}] ],                   # None = `.p()`, absent key = omitted pin
  "bbs": {bbname: [[ins], [outs]]}, "ports": [net] (default inputs+outputs)}
expr := net(str) | ["const","0"|"1"] | ["not",e] | ["and",e,e] | ["or",e,e] | ["xor",e,e] | ["xnor",e,e] | ["mux",c,a,b]
"""
import itertools

SYM = {"or": "|", "xor": "^", "and": "&"}


LEVEL = {"or": 1, "xor": 2, "xnor": 2, "and": 3, "not": 4}


def render_expr(e, rng=None, min_level=0):
    """Text of e following the grammar of verilog.lark: or < xor/xnor < and < unary < primary, binary
    operators left-associative, `?:` only at the root (its operands and any parenthesised expression are
    `or`-level).  Parentheses are inserted exactly where the tree needs them, plus random redundant ones."""
    if isinstance(e, str):
        return e
    op = e[0]
    if op == "const":
        return f"1'h{e[1]}" if (rng is not None and rng.random() < 0.3) else f"1'b{e[1]}"
    if op == "mux":
        assert min_level == 0, "?: is only available at the root of an expression"
        return " ? ".join([render_expr(e[1], rng, 1), render_expr(e[2], rng, 1)]) + " : " + render_expr(e[3], rng, 1)
    lv = LEVEL[op]
    if op == "not":
        sym = "!" if (rng is not None and rng.random() < 0.3) else "~"
        s = sym + render_expr(e[1], rng, 5)
    else:
        sym = SYM.get(op) or ("~^" if (rng is None or rng.random() < 0.5) else "^~")
        sp = "" if (rng is not None and rng.random() < 0.3) else " "
        rhs = render_expr(e[2], rng, lv + 1)
        # `^` directly followed by `~x` would lex as the single token `^~` (xnor): keep them apart
        sp2 = " " if (sym.endswith("^") and rhs[:1] in "~!") else sp
        s = render_expr(e[1], rng, lv) + sp + sym + sp2 + rhs
    if lv < max(min_level, 1) or (rng is not None and rng.random() < 0.12):
        return "(" + s + ")"
    return s


def eval_expr(e, val):
    if isinstance(e, str):
        return val(e)
    op = e[0]
    if op == "const":
        return e[1] == "1"
    if op == "not":
        return not eval_expr(e[1], val)
    if op == "and":
        return eval_expr(e[1], val) and eval_expr(e[2], val)
    if op == "or":
        return eval_expr(e[1], val) or eval_expr(e[2], val)
    if op == "xor":
        return eval_expr(e[1], val) != eval_expr(e[2], val)
    if op == "xnor":
        return eval_expr(e[1], val) == eval_expr(e[2], val)
    if op == "mux":
        return eval_expr(e[2], val) if eval_expr(e[1], val) else eval_expr(e[3], val)
    raise ValueError(op)


def expr_nets(e):
    if isinstance(e, str):
        return {e}
    if e[0] == "const":
        return set()
    out = set()
    for s in e[1:]:
        out |= expr_nets(s)
    return out


def gate_fn(t, vals):
    if t == "and":
        return all(vals)
    if t == "nand":
        return not all(vals)
    if t == "or":
        return any(vals)
    if t == "nor":
        return not any(vals)
    if t == "xor":
        return sum(vals) % 2 == 1
    if t == "xnor":
        return sum(vals) % 2 == 0
    if t == "buf":
        return vals[0]
    if t == "not":
        return not vals[0]
    raise ValueError(t)


def definitions(nl):
    """net -> ('gate', type, [exprs]) | ('assign', expr) | ('bbout', inst, pin)."""
    defs = {}
    for it in nl["items"]:
        if it[0] == "gate":
            for inst, out, ops in it[2]:
                defs.setdefault(out, []).append(("gate", it[1], ops))
        elif it[0] == "assign":
            for lhs, ex in it[1]:
                defs.setdefault(lhs, []).append(("assign", ex))
        elif it[0] == "bb":
            _, bbname, inst, conns = it
            for pin, net in conns.items():
                if net is not None and pin in nl["bbs"][bbname][1]:
                    defs.setdefault(net, []).append(("bbout", inst, pin))
    return defs


def free_signals(nl):
    """inputs and the nets driven by blackbox output pins."""
    fs = list(nl["inputs"])
    for net, ds in definitions(nl).items():
        if ds[0][0] == "bbout" and net not in fs:
            fs.append(net)
    return fs


def evaluate(nl, assignment):
    """values of every net under an assignment of free_signals(nl); acyclic netlists only."""
    defs = definitions(nl)
    memo = dict(assignment)
    busy = set()

    def val(n):
        if n in memo:
            return memo[n]
        if n in busy:
            raise ValueError("cyclic netlist")
        busy.add(n)
        d = defs[n][0]
        if d[0] == "gate":
            r = gate_fn(d[1], [eval_expr(o, val) for o in d[2]])
        elif d[0] == "assign":
            r = eval_expr(d[1], val)
        else:
            raise KeyError(n)
        busy.discard(n)
        memo[n] = r
        return r
    for n in defs:
        val(n)
    return memo


def render(nl, rng=None, layout="plain", order=None, comments=False, one_per_statement=False, header_comments=False,
           b_consts_only=False):
    """Verilog text.  layout: 'plain' (writer-like), 'fuzz' (random spaces/tabs/newlines between tokens,
    never between `)` and `;`), 'tight' (no optional whitespace)."""
    def ws(opt=True):
        if layout == "plain" or rng is None:
            return " " if not opt else ""
        if layout == "tight":
            return "" if opt else " "
        choices = [" ", "\t", "\n", "  ", " \n ", "\t "] + ([""] if opt else [])
        s = rng.choice(choices)
        if comments and rng.random() < 0.08:
            s += rng.choice(["/* c */", "// note\n", "/* multi\n line */", "/** doc **/", "/***/", "/**/", "/* a * b */", "/* x **/"]) + (" " if not opt else "")
        return s

    def sep():
        return "," + ws()

    ports = nl.get("ports")
    if ports is None:
        ports = list(nl["inputs"]) + list(nl["outputs"])
    out = []
    hdr_comments = comments
    if not header_comments:
        comments = False
    out.append("module" + ws(False) + nl["name"] + ws() + "(" + ws() + sep().join(ports) + ws() + ");\n")
    comments = hdr_comments
    decl = []
    for kw, key in (("input", "inputs"), ("output", "outputs"), ("wire", "wires")):
        names = nl[key]
        if not names:
            continue
        if layout == "plain" or rng is None or rng.random() < 0.5:
            for n in names:
                decl.append(f"  {kw}{ws(False)}{n}{ws()};\n")
        else:
            decl.append(f"  {kw}{ws(False)}" + sep().join(names) + ws() + ";\n")
    stmts = []
    for it in nl["items"]:
        if it[0] == "gate":
            insts = []
            for inst, o, ops in it[2]:
                args = [o] + [render_expr(x, rng if layout != "plain" else None) for x in ops]
                insts.append(f"{inst}{ws()}({ws()}" + sep().join(args) + f"{ws()})")
            if one_per_statement:
                for s in insts:
                    stmts.append(f"  {it[1]}{ws(False)}{s};\n")
            else:
                stmts.append(f"  {it[1]}{ws(False)}" + sep().join(insts) + ";\n")
        elif it[0] == "assign":
            asg = [f"{lhs}{ws()}={ws()}{render_expr(ex, rng if layout != 'plain' else None)}" for lhs, ex in it[1]]
            if one_per_statement:
                for a in asg:
                    stmts.append(f"  assign{ws(False)}{a}{ws()};\n")
            else:
                stmts.append(f"  assign{ws(False)}" + sep().join(asg) + f"{ws()};\n")
        elif it[0] == "bb":
            _, bbname, inst, conns = it
            pins = [f".{p}{ws()}({ws()}{'' if n is None else n}{ws()})" for p, n in conns.items()]
            stmts.append(f"  {bbname}{ws(False)}{inst}{ws()}({ws()}" + sep().join(pins) + f"{ws()});\n")
    body = decl + stmts
    if order == "shuffle" and rng is not None:
        rng.shuffle(body)
    if comments and rng is not None:
        body.insert(rng.randrange(len(body) + 1), rng.choice(["  // a comment line\n", "  /** a block comment closed by two stars **/\n", "  /***/\n"]))
    out += body
    out.append("endmodule\n")
    text = "".join(out)
    if b_consts_only:
        text = text.replace("1'h", "1'b")
    return text


# ---------------------------------------------------------------- generators
def rand_expr(rng, nets, depth, consts=True, root=True):
    if depth == 0 or rng.random() < 0.25:
        if consts and rng.random() < 0.1:
            return ["const", rng.choice(["0", "1"])]
        return rng.choice(nets)
    ops = ["not", "and", "or", "xor", "xnor", "and", "or", "xor"] + (["mux", "mux"] if root else [])
    op = rng.choice(ops)
    if op == "not":
        return ["not", rand_expr(rng, nets, depth - 1, consts, False)]
    if op == "mux":
        return ["mux"] + [rand_expr(rng, nets, depth - 1, consts, False) for _ in range(3)]
    return [op, rand_expr(rng, nets, depth - 1, consts, False), rand_expr(rng, nets, depth - 1, consts, False)]


def rand_netlist(rng, n_in=3, n_items=4, depth=2, names=None, bb=0, exprs_in_gates=False, restricted=False,
                 unconnected=0.0, omitted=0.0, repeated_operands=False, const_pins=0.0):
    """A random acyclic netlist of the subset.  restricted=True gives the C14 subset (one instance per statement,
    no expressions, assigns of a net or constant only, every output driven)."""
    pool = list(names) if names else None
    counter = itertools.count()

    def nm(prefix):
        if pool:
            return pool.pop(rng.randrange(len(pool)))
        return f"{prefix}{next(counter)}"
    inputs = [nm("a") for _ in range(n_in)]
    avail = list(inputs)
    wires, items, bbs = [], [], {}
    # blackbox TYPES: the same type name is given different pins in different netlists (definitions must not be
    # remembered from one parse to the next), and a type may be named like a primitive in another case (BUF, Nand)
    variant = rng.random()
    tn0 = "flop" if variant < 0.8 else rng.choice(["BUF", "Nand", "XOR", "Not"])
    pins0 = [["d", "ck"], ["q"]] if variant < 0.5 else ([["d", "ck", "en"], ["q"]] if variant < 0.65 else [["a"], ["q", "qn"]])
    for k in range(bb):
        bbname = tn0 if k % 2 == 0 else "cell2"
        bbs[bbname] = pins0 if bbname == tn0 else [["i0"], ["o0", "o1"]]
    made_bb = []
    for k in range(bb):
        bbname = tn0 if k % 2 == 0 else "cell2"
        inst = nm("u")
        conns = {}
        for p in bbs[bbname][1]:
            r = rng.random()
            if r < omitted:
                continue
            if r < omitted + unconnected:
                conns[p] = None
                continue
            net = nm("q")
            conns[p] = net
            wires.append(net)
            avail.append(net)
        made_bb.append([bbname, inst, conns])
    for k in range(n_items):
        kind = rng.random()
        out = nm("w")
        if kind < 0.55:
            t = rng.choice(["and", "nand", "or", "nor", "xor", "xnor", "buf", "not"])
            if t in ("buf", "not"):
                ops = [rng.choice(avail)]
            else:
                kk = rng.randint(2, min(4, max(2, len(avail))))
                ops = [rng.choice(avail) for _ in range(kk)] if repeated_operands else rng.sample(avail, min(kk, len(avail)))
            if exprs_in_gates and rng.random() < 0.3:
                ops[rng.randrange(len(ops))] = rand_expr(rng, avail, 1, True, False)
            if restricted and rng.random() < 0.15:
                ops[rng.randrange(len(ops))] = ["const", rng.choice(["0", "1"])]
            items.append(["gate", t, [[nm("g_"), out, ops]]])
        else:
            if restricted:
                ex = rng.choice(avail) if rng.random() < 0.7 else ["const", rng.choice(["0", "1"])]
            else:
                ex = rand_expr(rng, avail, depth)
            items.append(["assign", [[out, ex]]])
        wires.append(out)
        avail.append(out)
    for bbname, inst, conns in made_bb:
        for p in bbs[bbname][0]:
            r = rng.random()
            if r < omitted:
                continue
            if r < omitted + unconnected:
                conns[p] = None
                continue
            conns[p] = rng.choice(avail)
            if const_pins and rng.random() < const_pins:
                conns[p] = rng.choice(["1'b0", "1'b1"])
        if not conns:
            conns[bbs[bbname][0][0]] = rng.choice(avail)
        items.append(["bb", bbname, inst, conns])
    # outputs: some of the driven nets (not inputs)
    cands = [w for w in wires]
    n_out = max(1, min(len(cands), rng.randint(1, 3)))
    outputs = rng.sample(cands, n_out) if cands else []
    if not restricted and rng.random() < 0.15:
        outputs.append(rng.choice(inputs))  # an output that is also an input is not legal Verilog; keep out
        outputs.pop()
    wires = [w for w in wires if w not in outputs]
    # merge some statements: several instances per statement
    if not restricted:
        merged = []
        for it in items:
            if merged and it[0] == "gate" and merged[-1][0] == "gate" and merged[-1][1] == it[1] and rng.random() < 0.5:
                merged[-1][2].extend(it[2])
            elif merged and it[0] == "assign" and merged[-1][0] == "assign" and rng.random() < 0.4:
                merged[-1][1].extend(it[1])
            else:
                merged.append(it)
        items = merged
    return {"name": "top", "inputs": inputs, "outputs": outputs, "wires": wires, "items": items, "bbs": bbs}
