"""Concrete interpreters of the specification predicates of DESIGN section 4.2,
written from the property statements (C07, C20), NOT from the code of
utils.lint / Circuit.connect.  Used as oracles and as domain filters."""

SUPPORTED = ["buf", "and", "or", "xor", "not", "nand", "nor", "xnor", "0", "1", "x", "input", "bb_input", "bb_output"]
NO_FANIN = ("input", "0", "1", "x", "bb_output")
SINGLE = ("buf", "not", "bb_input")
MULTI = ("and", "nand", "or", "nor", "xor", "xnor")


def lint_violations(c, unloaded=False, undriven=True, single_input_gates=False):
    """List of (rule, node) for every rule of C20 the circuit violates."""
    g = c.graph
    v = []
    for n in g.nodes:
        a = g.nodes[n]
        t = a.get("type") if "type" in a else None
        if "type" not in a or t not in SUPPORTED:
            v.append(("type", n))
        nfi = g.in_degree(n)
        nfo = g.out_degree(n)
        if t in NO_FANIN and nfi > 0:
            v.append(("fanin-on-source", n))
        if t in SINGLE and nfi > 1:
            v.append(("multi-driver", n))
        if t == "bb_output":
            if nfo > 1:
                v.append(("bb_output-fanout", n))
            if any(g.nodes[s].get("type") != "buf" for s in g.successors(n)):
                v.append(("bb_output-nonbuf", n))
        if isinstance(n, str) and "." in n and n.split(".")[0] not in c.blackboxes:
            v.append(("dotted-name", n))
        if undriven and t in SINGLE + MULTI and nfi < 1:
            v.append(("undriven", n))
        if single_input_gates and t in MULTI and nfi < 2:
            v.append(("single-input-gate", n))
        if unloaded and not bool(a.get("output", False)) and nfo == 0:
            v.append(("unloaded", n))
    for inst, bb in c.blackboxes.items():
        for p in bb.inputs():
            pn = f"{inst}.{p}"
            if pn not in g.nodes:
                v.append(("missing-pin", pn))
            elif g.nodes[pn].get("type") != "bb_input":
                v.append(("mistyped-pin", pn))
        for p in bb.outputs():
            pn = f"{inst}.{p}"
            if pn not in g.nodes:
                v.append(("missing-pin", pn))
            elif g.nodes[pn].get("type") != "bb_output":
                v.append(("mistyped-pin", pn))
    return v


def lintclean(c, **flags):
    return not lint_violations(c, **flags)


def wired_violations(c, check_registry=True, removed_pins=()):
    """The representation invariant of C07 (`wired`)."""
    g = c.graph
    v = []
    for n in g.nodes:
        a = g.nodes[n]
        t = a.get("type")
        if "type" not in a or t not in SUPPORTED:
            v.append(("type", n))
        nfi = g.in_degree(n)
        if t in NO_FANIN and nfi > 0:
            v.append(("fanin-on-source", n))
        if t in SINGLE and nfi > 1:
            v.append(("multi-driver", n))
        if t == "bb_input" and g.out_degree(n) > 0:
            v.append(("bb_input-fanout", n))
        if t == "bb_output":
            if g.out_degree(n) > 1:
                v.append(("bb_output-fanout", n))
            if any(g.nodes[s].get("type") != "buf" for s in g.successors(n)):
                v.append(("bb_output-nonbuf", n))
    if check_registry:
        for inst, bb in c.blackboxes.items():
            for pins, t in ((bb.inputs(), "bb_input"), (bb.outputs(), "bb_output")):
                for p in pins:
                    pn = f"{inst}.{p}"
                    if pn in removed_pins:
                        continue
                    if pn not in g.nodes:
                        v.append(("missing-pin", pn))
                    elif g.nodes[pn].get("type") != t:
                        v.append(("mistyped-pin", pn))
    return v
