"""Shard runner of the bounded engine: one process = one PYTHONHASHSEED.

A bounded module (bounded/cNN.py) provides
  RULE: str                      -- how cases are generated / what non-trivial means
  BOUND: str                     -- the stated bound
  cases(tier, seed) -> iterator of JSON-able case dicts (deterministic)
  run_case(case) -> {"nontrivial": bool, "failures": [{"kind":..., "msg":...}, ...]}
The runner executes its share of the cases against the REAL code in /repo's
working tree and prints one JSON document."""
import argparse
import hashlib
import importlib
import json
import os
import sys
import time
import traceback

import vlib  # noqa: F401


def case_key(case):
    return hashlib.sha1(json.dumps(case, sort_keys=True, default=str).encode()).hexdigest()[:16]


def foreign(prop, failure):
    """a failure kind that states another property than the one being checked"""
    return str(failure.get("kind", "")).startswith("argument-mutated") and prop.upper() != "C19"


def run(prop, tier, seed, shard, nshards, budget_s=None):
    mod = importlib.import_module(f"bounded.{prop.lower()}")
    t0 = time.time()
    out = {"evaluations": 0, "keys": [], "samples": [], "failures": [], "errors": [], "notes": [],
           "truncated": False, "hashseed": os.environ.get("PYTHONHASHSEED", "random")}
    keys = set()
    early = []

    def all_cases():
        # the specific inputs of recorded findings are always explored (both tiers), so that a finding is observed and
        # reported on every run; then the generated cases of this shard
        if shard == 0:
            try:
                kf = json.load(open(os.path.join(os.path.dirname(os.path.dirname(os.path.abspath(__file__))), "known_findings.json")))
                for f in kf.get("findings", []):
                    if f.get("property") == prop.upper() and f.get("case") is not None:
                        yield f["case"]
            except OSError:
                pass
        for i, case in enumerate(mod.cases(tier, seed)):
            if i % nshards == shard:
                yield case

    for case in all_cases():
        if budget_s and time.time() - t0 > budget_s:
            out["truncated"] = True
            break
        try:
            r = mod.run_case(case)
        except (KeyError, IndexError, AttributeError, TypeError, ValueError, ArithmeticError, RecursionError) as ex:
            # the harness could not even interpret what the library returned (a missing key in a returned map, a cyclic
            # result, ...): on the unchanged tree this never happens, so it is reported as a failure of the case, with
            # the trace; environment problems (OSError, ImportError, MemoryError, ...) stay engine errors below
            import networkx as _nx
            r = {"nontrivial": True, "failures": [{"kind": f"result-not-interpretable:{type(ex).__name__}",
                                                   "msg": traceback.format_exc()[-700:]}]}
        except Exception as ex:  # engine problem, never a violation
            import networkx as _nx
            if isinstance(ex, _nx.NetworkXException):
                r = {"nontrivial": True, "failures": [{"kind": f"result-not-interpretable:{type(ex).__name__}", "msg": traceback.format_exc()[-700:]}]}
            else:
                out["errors"].append({"case": case, "trace": traceback.format_exc()[-1500:]})
                if len(out["errors"]) > 5:
                    break
                continue
        out["evaluations"] += 1
        if len(early) < 25:
            early.append((case, sorted(f["kind"] for f in r.get("failures", []) if not foreign(prop, f))))
        if r.get("nontrivial", True):
            keys.add(case_key(case))
        if len(out["samples"]) < 2:
            out["samples"].append(case)
        for f in r.get("failures", []):
            if foreign(prop, f):
                # observed, but it is another property's statement (C19: no mutation of arguments): not this check's alarm
                if len(out["notes"]) < 10:
                    out["notes"].append({"kind": f.get("kind"), "msg": str(f.get("msg"))[:200], "belongs_to": "C19"})
                continue
            if len(out["failures"]) < 40:
                f = dict(f)
                f["case"] = case
                f["hashseed"] = out["hashseed"]
                out["failures"].append(f)
    # calls must not depend on what the same process did before: the first cases of the shard are run once more at the
    # end (after every other case has run) and must give the verdict they gave when the process was fresh
    if not out["truncated"]:
        for case, kinds0 in early:
            try:
                r = mod.run_case(case)
            except Exception:  # noqa
                continue
            kinds1 = sorted(f["kind"] for f in r.get("failures", []) if not foreign(prop, f))
            if kinds1 != kinds0 and len(out["failures"]) < 40:
                out["failures"].append({"kind": "verdict-depends-on-earlier-calls", "case": case, "hashseed": out["hashseed"],
                                        "msg": f"fresh process: {kinds0 or 'no failure'}; after the other cases of this run: {kinds1 or 'no failure'}"})
                break
    out["keys"] = sorted(keys)
    out["wall_s"] = time.time() - t0
    return out


def main():
    ap = argparse.ArgumentParser()
    ap.add_argument("prop")
    ap.add_argument("--tier", default="quick")
    ap.add_argument("--seed", type=int, default=0)
    ap.add_argument("--shard", type=int, default=0)
    ap.add_argument("--nshards", type=int, default=1)
    ap.add_argument("--budget", type=float, default=None)
    ap.add_argument("--out", default=None)
    a = ap.parse_args()
    res = run(a.prop, a.tier, a.seed, a.shard, a.nshards, a.budget)
    txt = json.dumps(res, default=str)
    if a.out:
        with open(a.out, "w") as f:
            f.write(txt)
    else:
        sys.stdout.write(txt)


if __name__ == "__main__":
    main()
