"""Deterministic generators of circuit descriptions (cdicts, see vlib.circ).

Everything here is independent of set-iteration order: only lists, sorted()
and a seeded random.Random are used, so the same (tier, seed) gives the same
cases under every PYTHONHASHSEED."""
import os
import itertools
import random

GATES = ["and", "nand", "or", "nor", "xor", "xnor", "buf", "not"]
MULTI = ["and", "nand", "or", "nor", "xor", "xnor"]
SINGLE = ["buf", "not"]


def _subsets(items, lo=1, hi=None):
    hi = len(items) if hi is None else min(hi, len(items))
    for k in range(lo, hi + 1):
        yield from itertools.combinations(items, k)


def enum_circuits(n_in, n_gates, gate_types=GATES, consts=(), max_fanin=None,
                  outputs="sinks", name="c"):
    """Every circuit with exactly n_in inputs (+ the given constant nodes) and
    n_gates gates added in topological order; each gate picks a type and a
    non-empty subset of the earlier nodes (one node for buf/not).
    outputs: 'sinks' (nodes without fan-out among the gates, or everything when
    there is no gate), 'all' (every gate), or 'each' (one case per non-empty
    marking is too many; instead: sinks, and sinks+every single extra node)."""
    srcs = [f"i{k}" for k in range(n_in)]
    base_nodes = [[s, "input", False] for s in srcs] + [
        [f"k{t}", t, False] for t in consts
    ]
    base_names = [n[0] for n in base_nodes]

    def rec(nodes, names, edges, gi):
        if gi == n_gates:
            yield nodes, edges
            return
        g = f"g{gi}"
        for t in gate_types:
            if t in SINGLE:
                choices = [(p,) for p in names]
            else:
                choices = _subsets(names, 1, max_fanin)
            for fis in choices:
                yield from rec(nodes + [[g, t, False]], names + [g],
                               edges + [[p, g] for p in fis], gi + 1)

    for nodes, edges in rec(base_nodes, base_names, [], 0):
        drivers = {u for u, _ in edges}
        gates = [n[0] for n in nodes if n[0] not in base_names]
        sinks = [n for n in gates if n not in drivers] or [nodes[-1][0]] if nodes else []
        markings = [sinks]
        if outputs == "all":
            markings = [gates or sinks]
        elif outputs == "each":
            others = [n[0] for n in nodes if n[0] not in sinks]
            markings = [sinks] + [sinks + [o] for o in others]
        for mk in markings:
            ns = [[n, t, (n in mk)] for n, t, _ in nodes]
            yield {"name": name, "nodes": ns, "edges": [list(e) for e in edges], "bbs": {}}


NASTY_NAMES = [
    "a", "b", "a_b", "b_c", "c", "xor_a_b", "xor_b_c", "xor_a_b_c", "xor_inv_a", "xor_inv_g0",
    "c0_a", "c1_a", "sat", "dif_a", "tie_0", "tie_1", "and_a_b", "not_a", "a_X", "a_X_0",
    "aux_in_a", "g_0", "g_1", "a_limit_fanin_0", "a_limit_fanout_0", "a_x_in_fi", "a_is_0",
    "orig_a", "inv_a_a", "pc_in_0", "unrolled_0_a", "a_cg_unroll_0", "tie0", "tie1",
]


def random_circuit(rng, n_in=3, n_gates=5, types=GATES, max_fanin=3, p_const=0.0,
                   n_bb=0, bb_clk=False, cyclic=0, p_out=0.3, names=None, name="c",
                   allow_input_output=False, unconnected_pins=0.0, unconnected_in=0.0, x_const=False):
    """A lint-clean random circuit.  Sources first, then gates in topological
    order (so the graph is a DAG), then `cyclic` extra back-edges into
    multi-input gates (never self-loops).  Flop-like blackboxes: instance ffK
    with bb_input ffK.d driven by a random node (or unconnected), bb_output
    ffK.q driving a buf qK that is available as a source for the gates.
    unconnected_pins: probability that a q pin has no load (still lint-clean);
    unconnected_in: probability that an input pin is undriven (NOT lint-clean
    under the default flags; only C02/C03 use it)."""
    pool = list(names) if names else None

    def nm(default):
        if pool:
            return pool.pop(rng.randrange(len(pool)))
        return default

    nodes, edges, bbs = [], [], {}
    avail = []
    for k in range(n_in):
        n = nm(f"i{k}")
        nodes.append([n, "input", False])
        avail.append(n)
    consts = ["0", "1"] + (["x"] if x_const else [])
    if p_const and rng.random() < p_const:
        t = rng.choice(consts)
        n = nm(f"k{t}")
        nodes.append([n, t, False])
        avail.append(n)
        if rng.random() < 0.3:
            t2 = rng.choice([u for u in consts if u != t])
            n2 = nm(f"k{t2}")
            nodes.append([n2, t2, False])
            avail.append(n2)
    qbufs = []
    for k in range(n_bb):
        inst = nm(f"ff{k}")
        if inst.startswith("\\"):
            inst = f"ff{k}"  # escaped *instance* names are outside every property's domain
        pins_in = ["d"] + (["clk"] if bb_clk else [])
        bbs[inst] = ["ff", pins_in, ["q"]]
        for p in pins_in:
            nodes.append([f"{inst}.{p}", "bb_input", False])
        nodes.append([f"{inst}.q", "bb_output", False])
        if rng.random() >= unconnected_pins:
            q = nm(f"q{k}")
            nodes.append([q, "buf", False])
            edges.append([f"{inst}.q", q])
            avail.append(q)
            qbufs.append(q)
    if not avail:
        n = nm("k0")
        nodes.append([n, "0", False])
        avail.append(n)
    gates = []
    for k in range(n_gates):
        g = nm(f"g{k}")
        t = rng.choice(types)
        if t in SINGLE:
            fis = [rng.choice(avail)]
        else:
            kmax = min(max_fanin, len(avail))
            kk = rng.randint(1, kmax) if rng.random() < 0.15 else rng.randint(min(2, kmax), kmax)
            fis = rng.sample(avail, kk)
        nodes.append([g, t, False])
        for p in fis:
            edges.append([p, g])
        avail.append(g)
        gates.append((g, t))
    # connect flop inputs
    for inst, (bbname, pins_in, _) in bbs.items():
        for p in pins_in:
            if rng.random() >= unconnected_in:
                if p == "clk" and nodes[0][1] == "input":
                    edges.append([nodes[0][0], f"{inst}.{p}"])
                else:
                    edges.append([rng.choice(avail), f"{inst}.{p}"])
    # back edges
    multi = [g for g, t in gates if t in MULTI]
    order = {n[0]: i for i, n in enumerate(nodes)}
    tries = 0
    added = 0
    while added < cyclic and multi and tries < 50:
        tries += 1
        v = rng.choice(multi)
        later = [g for g, _ in gates if order[g] > order[v]]
        if not later:
            continue
        u = rng.choice(later)
        if [u, v] not in edges:
            edges.append([u, v])
            added += 1
    drivers = {u for u, _ in edges}
    for rec in nodes:
        n, t, _ = rec
        if t in ("bb_input", "bb_output"):
            continue
        if t == "input" and not allow_input_output:
            continue
        if n not in drivers and t not in ("input", "0", "1", "x"):
            rec[2] = True
        elif rng.random() < p_out:
            rec[2] = True
    if not any(r[2] for r in nodes):
        cand = [r for r in nodes if r[1] not in ("bb_input", "bb_output", "input")] or nodes
        cand[-1][2] = True
    return {"name": name, "nodes": nodes, "edges": edges, "bbs": bbs}


def source_templates():
    """Name templates that occur as f-strings in the CURRENT source of the library under test (identifier characters
    only, 1..3 holes): e.g. ("", "_limit_fanin_", ""), ("c0_", ""), ("xor_inv_", "").  Adversarial node names are built
    from them, so a name scheme introduced by a change to the library is tried on the very run that checks the change."""
    import ast
    import glob
    import re
    from vlib import REPO
    out = set()
    for f in sorted(glob.glob(os.path.join(REPO, "circuitgraph", "*.py"))):
        try:
            tree = ast.parse(open(f).read())
        except (OSError, SyntaxError):
            continue
        for n in ast.walk(tree):
            if isinstance(n, ast.JoinedStr):
                parts = [""]
                for v in n.values:
                    if isinstance(v, ast.Constant) and isinstance(v.value, str):
                        parts[-1] += v.value
                    else:
                        parts.append("")
                holes = len(parts) - 1
                if 1 <= holes <= 3 and any(parts) and all(len(q) <= 24 and re.fullmatch(r"[A-Za-z0-9_.]*", q) for q in parts):
                    out.add(tuple(parts))
    return sorted(out)


def instantiate(template, fillers):
    """template = tuple of literal parts; fillers: one string per hole"""
    s = template[0]
    for h, q in zip(fillers, template[1:]):
        s += str(h) + q
    return s


def template_family(gate_types=("and", "nand", "or", "nor", "xor", "xnor", "not", "buf")):
    """small circuits in which one node is named like something the library could derive from gate `g`:
    inputs a, b; g = <type>(a, b); e = <template instantiated with g> as a free input; h = and(g, e) (output).
    Every template of the current source x every gate type."""
    for t in source_templates():
        holes = len(t) - 1
        fills = [["g"] + ["0"] * (holes - 1), ["a"] * (holes - 1) + ["g"]] if holes > 1 else [["g"]]
        for fl in fills:
            e = instantiate(t, fl)
            if e in ("a", "b", "g", "h") or not e or e[0].isdigit() or "." in e:
                continue
            for ty in gate_types:
                fis = ["a"] if ty in ("not", "buf") else ["a", "b"]
                nodes = [["a", "input", False], ["b", "input", False], ["g", ty, True], [e, "input", False], ["h", "and", True]]
                edges = [[f, "g"] for f in fis] + [["g", "h"], [e, "h"]]
                if ty in ("not", "buf"):
                    nodes.append(["k", "or", True])
                    edges += [["b", "k"], [e, "k"]]
                yield {"name": "tpl", "nodes": nodes, "edges": edges, "bbs": {}}


def rng_for(seed, *salt):
    return random.Random(repr((seed,) + salt))
