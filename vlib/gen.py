"""Deterministic generators of circuit descriptions (cdicts, see vlib.circ).

Everything here is independent of set-iteration order: only lists, sorted()
and a seeded random.Random are used, so the same (tier, seed) gives the same
cases under every PYTHONHASHSEED."""
import os
import itertools
import random

GATES = ["and", "nand", "or", "nor", "xor", "xnor", "buf", "not"]
MULTI = ["and", "nand", "or", "nor", "xor", "xnor"]
SINGLE = ["buf", "not"]


def _subsets(items, lo=1, hi=None):
    hi = len(items) if hi is None else min(hi, len(items))
    for k in range(lo, hi + 1):
        yield from itertools.combinations(items, k)


def enum_circuits(n_in, n_gates, gate_types=GATES, consts=(), max_fanin=None,
                  outputs="sinks", name="c"):
    """Every circuit with exactly n_in inputs (+ the given constant nodes) and
    n_gates gates added in topological order; each gate picks a type and a
    non-empty subset of the earlier nodes (one node for buf/not).
    outputs: 'sinks' (nodes without fan-out among the gates, or everything when
    there is no gate), 'all' (every gate), or 'each' (one case per non-empty
    marking is too many; instead: sinks, and sinks+every single extra node)."""
    srcs = [f"i{k}" for k in range(n_in)]
    base_nodes = [[s, "input", False] for s in srcs] + [
        [f"k{t}", t, False] for t in consts
    ]
    base_names = [n[0] for n in base_nodes]

    def rec(nodes, names, edges, gi):
        if gi == n_gates:
            yield nodes, edges
            return
        g = f"g{gi}"
        for t in gate_types:
            if t in SINGLE:
                choices = [(p,) for p in names]
            else:
                choices = _subsets(names, 1, max_fanin)
            for fis in choices:
                yield from rec(nodes + [[g, t, False]], names + [g],
                               edges + [[p, g] for p in fis], gi + 1)

    for nodes, edges in rec(base_nodes, base_names, [], 0):
        drivers = {u for u, _ in edges}
        gates = [n[0] for n in nodes if n[0] not in base_names]
        sinks = [n for n in gates if n not in drivers] or [nodes[-1][0]] if nodes else []
        markings = [sinks]
        if outputs == "all":
            markings = [gates or sinks]
        elif outputs == "each":
            others = [n[0] for n in nodes if n[0] not in sinks]
            markings = [sinks] + [sinks + [o] for o in others]
        for mk in markings:
            ns = [[n, t, (n in mk)] for n, t, _ in nodes]
            yield {"name": name, "nodes": ns, "edges": [list(e) for e in edges], "bbs": {}}


NASTY_NAMES = [
    "a", "b", "a_b", "b_c", "c", "xor_a_b", "xor_b_c", "xor_a_b_c", "xor_inv_a", "xor_inv_g0",
    "c0_a", "c1_a", "sat", "dif_a", "tie_0", "tie_1", "and_a_b", "not_a", "a_X", "a_X_0",
    "aux_in_a", "g_0", "g_1", "a_limit_fanin_0", "a_limit_fanout_0", "a_x_in_fi", "a_is_0",
    "orig_a", "inv_a_a", "pc_in_0", "unrolled_0_a", "a_cg_unroll_0", "tie0", "tie1",
]


def random_circuit(rng, n_in=3, n_gates=5, types=GATES, max_fanin=3, p_const=0.0,
                   n_bb=0, bb_clk=False, bb_qn=False, cyclic=0, p_out=0.3, names=None, name="c",
                   allow_input_output=False, unconnected_pins=0.0, unconnected_in=0.0, x_const=False):
    """A lint-clean random circuit.  Sources first, then gates in topological
    order (so the graph is a DAG), then `cyclic` extra back-edges into
    multi-input gates (never self-loops).  Flop-like blackboxes: instance ffK
    with bb_input ffK.d driven by a random node (or unconnected), bb_output
    ffK.q driving a buf qK that is available as a source for the gates.
    unconnected_pins: probability that a q pin has no load (still lint-clean);
    unconnected_in: probability that an input pin is undriven (NOT lint-clean
    under the default flags; only C02/C03 use it)."""
    pool = list(names) if names else None

    def nm(default):
        if pool:
            return pool.pop(rng.randrange(len(pool)))
        return default

    nodes, edges, bbs = [], [], {}
    avail = []
    for k in range(n_in):
        n = nm(f"i{k}")
        nodes.append([n, "input", False])
        avail.append(n)
    consts = ["0", "1"] + (["x"] if x_const else [])
    if p_const and rng.random() < p_const:
        t = rng.choice(consts)
        n = nm(f"k{t}")
        nodes.append([n, t, False])
        avail.append(n)
        if rng.random() < 0.3:
            t2 = rng.choice([u for u in consts if u != t])
            n2 = nm(f"k{t2}")
            nodes.append([n2, t2, False])
            avail.append(n2)
    qbufs = []
    for k in range(n_bb):
        inst = nm(f"ff{k}")
        if inst.startswith("\\"):
            inst = f"ff{k}"  # escaped *instance* names are outside every property's domain
        pins_in = ["d"] + (["clk"] if bb_clk else [])
        bbs[inst] = ["ff", pins_in, ["q"] + (["qn"] if bb_qn else [])]
        for p in pins_in:
            nodes.append([f"{inst}.{p}", "bb_input", False])
        nodes.append([f"{inst}.q", "bb_output", False])
        if bb_qn:
            nodes.append([f"{inst}.qn", "bb_output", False])   # second (unloaded) output pin, as in Q/QN library cells
        if rng.random() >= unconnected_pins:
            q = nm(f"q{k}")
            nodes.append([q, "buf", False])
            edges.append([f"{inst}.q", q])
            avail.append(q)
            qbufs.append(q)
    if not avail:
        n = nm("k0")
        nodes.append([n, "0", False])
        avail.append(n)
    gates = []
    for k in range(n_gates):
        g = nm(f"g{k}")
        t = rng.choice(types)
        if t in SINGLE:
            fis = [rng.choice(avail)]
        else:
            kmax = min(max_fanin, len(avail))
            kk = rng.randint(1, kmax) if rng.random() < 0.15 else rng.randint(min(2, kmax), kmax)
            fis = rng.sample(avail, kk)
        nodes.append([g, t, False])
        for p in fis:
            edges.append([p, g])
        avail.append(g)
        gates.append((g, t))
    # connect flop inputs
    for inst, (bbname, pins_in, _) in bbs.items():
        for p in pins_in:
            if rng.random() >= unconnected_in:
                if p == "clk" and nodes[0][1] == "input":
                    edges.append([nodes[0][0], f"{inst}.{p}"])
                else:
                    edges.append([rng.choice(avail), f"{inst}.{p}"])
    # back edges
    multi = [g for g, t in gates if t in MULTI]
    order = {n[0]: i for i, n in enumerate(nodes)}
    tries = 0
    added = 0
    while added < cyclic and multi and tries < 50:
        tries += 1
        v = rng.choice(multi)
        later = [g for g, _ in gates if order[g] > order[v]]
        if not later:
            continue
        u = rng.choice(later)
        if [u, v] not in edges:
            edges.append([u, v])
            added += 1
    drivers = {u for u, _ in edges}
    for rec in nodes:
        n, t, _ = rec
        if t in ("bb_input", "bb_output"):
            continue
        if t == "input" and not allow_input_output:
            continue
        if n not in drivers and t not in ("input", "0", "1", "x"):
            rec[2] = True
        elif rng.random() < p_out:
            rec[2] = True
    if not any(r[2] for r in nodes):
        cand = [r for r in nodes if r[1] not in ("bb_input", "bb_output", "input")] or nodes
        cand[-1][2] = True
    return {"name": name, "nodes": nodes, "edges": edges, "bbs": bbs}


def source_templates():
    """Name templates that occur as f-strings in the CURRENT source of the library under test (identifier characters
    only, 1..3 holes): e.g. ("", "_limit_fanin_", ""), ("c0_", ""), ("xor_inv_", "").  Adversarial node names are built
    from them, so a name scheme introduced by a change to the library is tried on the very run that checks the change."""
    import ast
    import glob
    import re
    from vlib import REPO
    out = set()
    for f in sorted(glob.glob(os.path.join(REPO, "circuitgraph", "*.py"))):
        try:
            tree = ast.parse(open(f).read())
        except (OSError, SyntaxError):
            continue
        for n in ast.walk(tree):
            if isinstance(n, ast.JoinedStr):
                parts = [""]
                for v in n.values:
                    if isinstance(v, ast.Constant) and isinstance(v.value, str):
                        parts[-1] += v.value
                    else:
                        parts.append("")
                holes = len(parts) - 1
                if 1 <= holes <= 3 and any(parts) and all(len(q) <= 24 and re.fullmatch(r"[A-Za-z0-9_.]*", q) for q in parts):
                    out.add(tuple(parts))
            # literal prefixes / suffixes the code tests names with:  name.startswith("tie_"), name.endswith("_Q")
            if isinstance(n, ast.Call) and isinstance(n.func, ast.Attribute) and n.func.attr in ("startswith", "endswith") and n.args \
                    and isinstance(n.args[0], ast.Constant) and isinstance(n.args[0].value, str) and re.fullmatch(r"[A-Za-z0-9_]{2,16}", n.args[0].value):
                out.add((n.args[0].value, "") if n.func.attr == "startswith" else ("", n.args[0].value))
    return sorted(out)


def instantiate(template, fillers):
    """template = tuple of literal parts; fillers: one string per hole"""
    s = template[0]
    for h, q in zip(fillers, template[1:]):
        s += str(h) + q
    return s


def template_family(gate_types=("and", "nand", "or", "nor", "xor", "xnor", "not", "buf")):
    """small circuits in which one node is named like something the library could derive from gate `g`:
    inputs a, b; g = <type>(a, b); e = <template instantiated with g> as a free input; h = and(g, e) (output).
    Every template of the current source x every gate type."""
    for t in source_templates():
        holes = len(t) - 1
        fills = [["g"] + ["0"] * (holes - 1), ["a"] * (holes - 1) + ["g"]] if holes > 1 else [["g"]]
        for fl in fills:
            e = instantiate(t, fl)
            if e in ("a", "b", "g", "h") or not e or e[0].isdigit() or "." in e:
                continue
            for ty in gate_types:
                fis = ["a"] if ty in ("not", "buf") else ["a", "b"]
                nodes = [["a", "input", False], ["b", "input", False], ["g", ty, True], [e, "input", False], ["h", "and", True]]
                edges = [[f, "g"] for f in fis] + [["g", "h"], [e, "h"]]
                if ty in ("not", "buf"):
                    nodes.append(["k", "or", True])
                    edges += [["b", "k"], [e, "k"]]
                yield {"name": "tpl", "nodes": nodes, "edges": edges, "bbs": {}}


_TPL_CACHE = {}


def adversarial_rename(cd, rng, k=2):
    """rename up to k nodes of the circuit description to names that the library's own naming schemes would derive
    from OTHER nodes of the same circuit (templates of the current source, see source_templates): the structure is
    unchanged, only names collide with what a transform is about to create"""
    if "tpl" not in _TPL_CACHE:
        _TPL_CACHE["tpl"] = [t for t in source_templates() if not any("." in q for q in t)]
    tpls = _TPL_CACHE["tpl"]
    if not tpls:
        return cd
    names = [r[0] for r in cd["nodes"]]
    plain = [n for n in names if "." not in n]
    if len(plain) < 2:
        return cd
    ren = {}
    # two naming schemes that can produce the same text: q + S2 == p + S1 when S1 ends with S2 (q = p + the rest), and
    # symmetrically for prefixes -- e.g. helper f"{p}_not_x" against companion f"{q}_x" for a node q named p + "_not"
    if rng.random() < 0.4:
        one = [t for t in tpls if len(t) == 2]
        cands = []
        for (p1, s1) in one:
            for (p2, s2) in one:
                if (p1, s1) == (p2, s2):
                    continue
                if not p1 and not p2 and s1.endswith(s2) and len(s1) > len(s2):
                    cands.append(("suffix", s1[:len(s1) - len(s2)]))
                if not s1 and not s2 and p1.startswith(p2) and len(p1) > len(p2):
                    cands.append(("prefix", p1[len(p2):]))
        if cands and len(plain) >= 2:
            how, piece = rng.choice(sorted(set(cands)))
            victim, other = rng.sample(plain, 2)
            new = other + piece if how == "suffix" else piece + other
            if new not in names and not new[0].isdigit():
                ren[victim] = new
    for _ in range(k):
        t = rng.choice(tpls)
        victim = rng.choice(plain)
        others = [n for n in plain if n != victim and n not in ren]
        if not others or victim in ren:
            continue
        fills = [rng.choice(others + ["0", "1"]) for _ in range(len(t) - 1)]
        fills[rng.randrange(len(fills))] = rng.choice(others)
        new = instantiate(t, fills)
        if not new or new[0].isdigit() or new in names or new in ren.values() or len(new) > 40:
            continue
        ren[victim] = new
    if not ren:
        return cd
    r = lambda n: ren.get(n, n)
    out = dict(cd)
    out["nodes"] = [[r(n), t, o] for n, t, o in cd["nodes"]]
    out["edges"] = [[r(u), r(v)] for u, v in cd["edges"]]
    return out


def looks_derived(name):
    """does the name match one of the library's own naming templates (so that a transform may legitimately reject the
    circuit with a name-clash ValueError)?"""
    import re
    if "re" not in _TPL_CACHE:
        pats = []
        for t in source_templates():
            if any("." in q for q in t):
                continue
            pats.append(re.compile("^" + ".+".join(re.escape(q) for q in t) + "$"))
        _TPL_CACHE["re"] = pats
    return any(p_.match(name) for p_ in _TPL_CACHE["re"])


def shuffle_nodes(cd, rng):
    """the same circuit with its nodes (and edges) listed in another order: graph iteration order follows insertion order,
    e.g. a gate can come before its fan-in as in a circuit built output-first"""
    out = dict(cd)
    out["nodes"] = list(cd["nodes"])
    out["edges"] = list(cd["edges"])
    rng.shuffle(out["nodes"])
    rng.shuffle(out["edges"])
    return out


def guarded(what, thunk, names):
    """run a library transform: (result, None) | (None, failure dict) | (None, "skip").
    A ValueError that reports a name clash on a circuit containing names shaped like the library's own derived names
    is a stated rejection (skip); any other exception of the transform is a failure of kind <what>-raises-<Type>."""
    try:
        return thunk(), None
    except ValueError as ex:
        msg = str(ex)
        if ("already in circuit" in msg or "overlap" in msg or "already exists" in msg) and any(looks_derived(x) for x in names):
            return None, "skip"
        return None, {"kind": f"{what}-raises-ValueError", "msg": repr(ex)[:300]}
    except Exception as ex:  # noqa
        return None, {"kind": f"{what}-raises-{type(ex).__name__}", "msg": repr(ex)[:300]}


def rng_for(seed, *salt):
    return random.Random(repr((seed,) + salt))
