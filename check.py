#!/usr/bin/env python3
"""Driver: ./check <PROP|all> [--tier quick|thorough] [--seed N]   |   ./check replay <file>

Per property it (1) runs the deductive part (pyvc: VCs generated from the
current source text of /repo, discharged by z3/cvc5) and (2) the bounded
stand-in (the same contracts evaluated on the real functions over a stated
finite scope), merges both into /verif/evidence/<id>.json and decides:

  exit 0  property held on everything explored (KNOWN-FINDING lines allowed)
  exit 1  VIOLATION property=<id> replay=<path>
  exit 2  undecided (solver unknown / outside subset) and nothing failing found
  exit 3  engine crash
"""
import argparse
import re
import json
import os
import subprocess
import sys
import tempfile
import time

HERE = os.path.dirname(os.path.abspath(__file__))
sys.path.insert(0, HERE)
PY = os.environ.get("VERIF_PYTHON", "python3-vt")
REPO = os.environ.get("VERIF_REPO", "/repo")

from registry import CHECKS  # noqa: E402


def env_for(hashseed=None):
    e = dict(os.environ)
    e["PYTHONPATH"] = os.pathsep.join([os.path.join(HERE, "shim"), REPO, HERE])
    e["PATH"] = os.path.join(HERE, "shim", "bin") + os.pathsep + e.get("PATH", "")
    e["PYTHONDONTWRITEBYTECODE"] = "1"
    e.setdefault("VERIF_REPO", REPO)
    if hashseed is not None:
        e["PYTHONHASHSEED"] = str(hashseed)
    return e


def load_known():
    p = os.path.join(HERE, "known_findings.json")
    if not os.path.exists(p):
        return {"findings": [], "fixed": []}
    return json.load(open(p))


def run_bounded(prop, tier, seed, cfg):
    k = cfg.get("hashseeds", {}).get(tier, 4 if tier == "quick" else 16)
    procs_total = int(os.environ.get("VERIF_PROCS", "16"))
    nshards = max(1, procs_total // k)
    budget = cfg.get("budget_s", {}).get(tier, 150 if tier == "quick" else 1500)
    jobs = []
    tmpd = tempfile.mkdtemp(prefix="verif_shards_")
    for hs in range(k):
        for sh in range(nshards):
            out = os.path.join(tmpd, f"{hs}_{sh}.json")
            cmd = [PY, "-m", "vlib.runner", prop, "--tier", tier, "--seed", str(seed),
                   "--shard", str(sh), "--nshards", str(nshards), "--budget", str(budget), "--out", out]
            p = subprocess.Popen(cmd, cwd=HERE, env=env_for(hs), stdout=subprocess.PIPE, stderr=subprocess.PIPE)
            jobs.append((hs, sh, out, p))
    merged = {"evaluations": 0, "keys": set(), "samples": [], "failures": [], "errors": [], "truncated": False,
              "hashseeds": k, "shards": nshards}
    crashed = []
    for hs, sh, out, p in jobs:
        so, se = p.communicate()
        if p.returncode != 0 or not os.path.exists(out):
            crashed.append((hs, sh, se.decode(errors="replace")[-2000:]))
            continue
        r = json.load(open(out))
        os.unlink(out)
        merged["evaluations"] += r["evaluations"]
        merged["keys"].update(r["keys"])
        if len(merged["samples"]) < 3:
            merged["samples"].extend(r["samples"][:1])
        merged["failures"].extend(r["failures"])
        merged["errors"].extend(r["errors"])
        merged["notes"] = (merged.get("notes", []) + r.get("notes", []))[:10]
        merged["truncated"] |= r["truncated"]
    try:
        os.rmdir(tmpd)
    except OSError:
        pass
    merged["crashed"] = crashed
    return merged


def run_proof(prop, tier, cfg):
    if not cfg.get("proof"):
        return None
    out = tempfile.mktemp(prefix="verif_pyvc_", suffix=".json")
    cmd = [PY, "-m", "pyvc.main", "--prop", prop, "--tier", tier, "--out", out]
    p = subprocess.run(cmd, cwd=HERE, env=env_for(0), stdout=subprocess.PIPE, stderr=subprocess.PIPE)
    if p.returncode != 0 or not os.path.exists(out):
        return {"crash": p.stderr.decode(errors="replace")[-3000:] + p.stdout.decode(errors="replace")[-1000:]}
    r = json.load(open(out))
    os.unlink(out)
    return r


def match_known(known, prop, failure):
    for kf in known.get("findings", []):
        if kf["property"] != prop:
            continue
        if kf["kind"] == failure.get("kind") or (kf.get("kind_regex") and re.fullmatch(kf["kind_regex"], failure.get("kind", ""))):
            return kf
    return None


def write_replay(prop, idx, payload):
    d = os.path.join(HERE, "replays")
    os.makedirs(d, exist_ok=True)
    path = os.path.join(d, f"{prop}-{idx}.json")
    with open(path, "w") as f:
        json.dump(payload, f, indent=1, default=str)
    return path


def check_property(prop, tier, seed):
    t0 = time.time()
    cfg = CHECKS[prop]
    known = load_known()
    lines = []
    proof = run_proof(prop, tier, cfg)
    bounded = run_bounded(prop, tier, seed, cfg) if cfg.get("bounded", True) else None
    crash = False
    undecided = []
    violations = []
    kf_lines = {}

    # ---- bounded verdicts
    if bounded:
        if bounded["crashed"] or bounded["errors"]:
            crash = True
            for c in bounded["crashed"][:2]:
                lines.append(f"ENGINE-CRASH property={prop} shard={c[0]}/{c[1]}\n{c[2]}")
            for e in bounded["errors"][:2]:
                lines.append(f"ENGINE-ERROR property={prop} case={json.dumps(e['case'], default=str)[:300]}\n{e['trace']}")
        seen_kinds = set()
        for f in bounded["failures"]:
            kf = match_known(known, prop, f)
            if kf:
                kf_lines[kf["kind"]] = f"KNOWN-FINDING: property={prop} {kf['what']}"
                continue
            if f["kind"] in seen_kinds and len(violations) >= 3:
                continue
            seen_kinds.add(f["kind"])
            violations.append({"source": "bounded", **f})

    # ---- proof verdicts
    pf_summary = None
    if proof is not None:
        if "crash" in proof:
            crash = True
            lines.append(f"ENGINE-CRASH property={prop} pyvc\n{proof['crash']}")
        else:
            pf_summary = proof
            for ob in proof["obligations"]:
                if ob["status"] == "discharged":
                    continue
                kf = None
                for k in known.get("findings", []):
                    if k["property"] == prop and k.get("obligation") == ob["id"]:
                        kf = k
                if kf:
                    kf_lines[kf["kind"]] = f"KNOWN-FINDING: property={prop} {kf['what']}"
                    continue
                if ob["status"] == "refuted":
                    # a definite counter-model of an obligation: look for the failing input
                    violations.append({"source": "pyvc", "kind": "obligation:" + ob["id"], "obligation": ob["id"],
                                       "msg": ob.get("detail", ""), "model": ob.get("model"),
                                       "replayed": ob.get("replayed", False), "case": ob.get("replay_case")})
                elif ob.get("code_changed"):
                    # the source of a function under contract differs from the tree the lock was made on, every obligation
                    # of this task was discharged there, and this one no longer is: reported as the violation, with the
                    # verifier's reason (no counter-model: the line ends with no-failing-input-found)
                    violations.append({"source": "pyvc", "kind": "obligation:" + ob["id"], "obligation": ob["id"],
                                       "msg": f"discharged on the tree of the lock file, now {ob['status']}: {str(ob.get('detail', ''))[:400]}",
                                       "model": ob.get("model"), "replayed": False, "case": None, "solver": ob.get("solver")})
                else:
                    undecided.append(ob)

    # ---- thorough tier: re-check the Lean meta-lemmas this property leans on
    lean_ok = None
    if tier == "thorough" and cfg.get("lean"):
        try:
            pl = subprocess.run(["lean", os.path.join(HERE, "lean", "MetaLemmas.lean")], stdout=subprocess.PIPE, stderr=subprocess.STDOUT, timeout=900)
            lean_ok = pl.returncode == 0
            if not lean_ok:
                crash = True
                lines.append(f"ENGINE-ERROR property={prop} lean rejected lean/MetaLemmas.lean\n" + pl.stdout.decode(errors="replace")[-800:])
        except Exception as ex:  # lean missing: reported, not fatal for the property verdict
            lines.append(f"NOTE property={prop} lean not run: {ex!r}")

    # ---- thorough tier: in-memory mutants of the functions under contract (vacuity guard; no verdict)
    mutant_report = None
    if tier == "thorough" and pf_summary is not None and cfg.get("mutants"):
        mutant_report = []
        for task, qual in cfg["mutants"]:
            outj = tempfile.mktemp(prefix="verif_mut_", suffix=".json")
            try:
                subprocess.run([PY, "-m", "pyvc.mutants", task, qual, str(cfg.get("mutants_max", 20))], cwd=HERE,
                               env=dict(env_for(0), PYVC_MUTANTS_JSON=outj), stdout=subprocess.PIPE, stderr=subprocess.PIPE, timeout=3000)
                mutant_report.append(json.load(open(outj)))
                os.unlink(outj)
            except Exception as ex:
                mutant_report.append({"task": task, "function": qual, "error": repr(ex)[:200]})
        pf_summary["mutants"] = mutant_report

    # ---- print
    for l in kf_lines.values():
        lines.append(l)
    have_input = [v for v in violations if v["source"] == "bounded" or v.get("replayed")]
    no_input = [v for v in violations if v not in have_input]
    idx = 0
    for v in have_input[:5]:
        path = write_replay(prop, idx, {"property": prop, "module": f"bounded.{prop.lower()}", **v})
        idx += 1
        ob = f" obligation={v['obligation']}" if v.get("obligation") else ""
        lines.append(f"VIOLATION property={prop} replay={path} kind={v['kind']}{ob} :: {str(v.get('msg'))[:300]}")
    for v in no_input[:5]:
        # a refuted obligation; if the bounded engine produced a failing input, that one is the replay
        if have_input:
            lines.append(f"FAILED-OBLIGATION property={prop} obligation={v['obligation']} (failing input: see VIOLATION above)")
            continue
        path = write_replay(prop, idx, {"property": prop, "module": "pyvc", **v})
        idx += 1
        lines.append(f"VIOLATION property={prop} replay={path} obligation={v['obligation']} no-failing-input-found")
    for ob in undecided[:10]:
        lines.append(f"UNDECIDED property={prop} obligation={ob['id']} reason={ob['status']}:{str(ob.get('detail',''))[:200]}")

    # ---- evidence
    nviol = len(violations)
    ev = {
        "property_id": prop,
        "tier": tier,
        "seed": seed,
        "level": cfg["level"],
        "coverage": {},
        "assumptions": list(cfg.get("assumptions", [])),
        "wall_s": 0.0,
        "violations": nviol,
    }
    cov = ev["coverage"]
    if bounded:
        mod_rule = cfg.get("rule", "")
        cov.update({
            "evaluations": bounded["evaluations"],
            "distinct_nontrivial": len(bounded["keys"]),
            "rule": mod_rule,
            "samples": bounded["samples"][:3],
            "bound": cfg.get("bound", ""),
            "hash_seeds": bounded["hashseeds"],
            "bounded_truncated_by_time_budget": bounded["truncated"],
            "exhaustive": False,
            "observations_belonging_to_other_properties": bounded.get("notes", []),
        })
    if pf_summary:
        obs = pf_summary["obligations"]
        cov.update({
            "obligations": len(obs),
            "discharged": sum(1 for o in obs if o["status"] == "discharged"),
            "checker_cmd": pf_summary.get("checker_cmd", ""),
            "trusted_base": pf_summary.get("trusted_base", []),
            "functions_under_contract": pf_summary.get("functions", []),
            "solver_time_s": round(sum(o.get("time", 0) for o in obs), 3),
            "by_solver": pf_summary.get("by_solver", {}),
            "obligation_list": [{"id": o["id"], "status": o["status"], "solver": o.get("solver"), "time": round(o.get("time", 0), 3)} for o in obs],
            "mutants": pf_summary.get("mutants"),
            "contracts_verified_under_another_property": pf_summary.get("depends_on", []),
            "extraction_drops": pf_summary.get("extraction_drops", []),
        })
        ev["assumptions"] = sorted(set(ev["assumptions"]) | set(pf_summary.get("assumptions", [])))
        cov.setdefault("samples", [])
        if not bounded:
            cov["samples"] = [o["id"] for o in obs[:5]]
    if lean_ok is not None:
        cov["meta_lemmas_rechecked_with_lean"] = lean_ok
    cov["known_findings_reported"] = sorted(kf_lines)
    cov["explanation"] = cfg.get("explanation", "")
    ev["wall_s"] = round(time.time() - t0, 2)
    # evidence/ holds runs against /repo only; runs of my own tooling against a scratch tree (VERIF_REPO) go elsewhere
    evdir = os.environ.get("VERIF_EVIDENCE_DIR") or (os.path.join(HERE, "evidence") if REPO == "/repo" else os.path.join(HERE, "replays", "scratch-evidence"))
    os.makedirs(evdir, exist_ok=True)
    with open(os.path.join(evdir, f"{prop}.json"), "w") as f:
        json.dump(ev, f, indent=1, default=str)

    for l in lines:
        print(l)
    vac = False
    if bounded and bounded["evaluations"] == 0:
        print(f"ENGINE-ERROR property={prop} zero bounded evaluations (vacuous run)")
        vac = True
    if pf_summary is not None and not pf_summary["obligations"]:
        print(f"ENGINE-ERROR property={prop} zero obligations generated (vacuous run)")
        vac = True
    if violations:
        rc = 1
    elif crash or vac:
        rc = 3
    elif undecided:
        rc = 2
    else:
        rc = 0
    tag = {0: "HELD", 1: "VIOLATED", 2: "UNDECIDED", 3: "ENGINE-FAILURE"}[rc]
    nob = f" obligations={cov.get('discharged')}/{cov.get('obligations')}" if pf_summary else ""
    nbd = f" bounded_evals={cov.get('evaluations')} distinct={cov.get('distinct_nontrivial')}" if bounded else ""
    print(f"{tag} property={prop} tier={tier}{nob}{nbd} wall={ev['wall_s']}s")
    return rc


def replay(path):
    rec = json.load(open(path))
    prop = rec["property"]
    if rec.get("module") == "pyvc" or rec.get("case") is None:
        print(f"replay: obligation {rec.get('obligation')} of {prop} failed; no concrete input was found.")
        print(json.dumps(rec, indent=1, default=str)[:4000])
        return 1
    warm = ""
    if str(rec.get("kind", "")).startswith("verdict-depends-on-earlier-calls"):
        # the verdict of this case changes once other cases have run in the same process: replay it after a warm-up
        # over the generated cases of the quick tier (bounded by a time budget)
        warm = ("import time\n"
                "t0=time.time()\n"
                "for i,c0 in enumerate(m.cases('quick',0)):\n"
                "    if time.time()-t0>120: break\n"
                "    try: m.run_case(c0)\n"
                "    except Exception: pass\n")
    code = (
        "import json,sys,importlib,vlib\n"
        f"rec=json.load(open({path!r}))\n"
        "m=importlib.import_module(rec['module'])\n"
        + warm +
        "r=m.run_case(rec['case'])\n"
        "from vlib.runner import foreign\n"
        "r['failures']=[f for f in r.get('failures',[]) if not foreign(rec['property'], f)]\n"
        "print(json.dumps(r,indent=1,default=str))\n"
        "sys.exit(1 if r.get('failures') else 0)\n"
    )
    hs = rec.get("hashseed")
    hs = None if hs in (None, "random") else hs
    p = subprocess.run([PY, "-c", code], cwd=HERE, env=env_for(hs))
    print("replay: failure reproduced" if p.returncode == 1 else "replay: no failure on this tree")
    return p.returncode


def main():
    if len(sys.argv) >= 3 and sys.argv[1] == "replay":
        sys.exit(replay(sys.argv[2]))
    ap = argparse.ArgumentParser()
    ap.add_argument("prop")
    ap.add_argument("--tier", default=os.environ.get("VERIF_TIER", "quick"))
    ap.add_argument("--seed", type=int, default=int(os.environ.get("VERIF_SEED", "0")))
    a = ap.parse_args()
    props = sorted(CHECKS) if a.prop == "all" else [a.prop]
    worst = 0
    for p in props:
        rc = check_property(p, a.tier, a.seed)
        worst = max(worst, rc) if rc != 1 else max(worst, 1) if worst != 3 else worst
    sys.exit(worst)


if __name__ == "__main__":
    main()
