"""Registry of checks: which parts exist per property (kept in sync with MANIFEST.json by tools/mkmanifest.py)."""
import importlib

A_COMMON = [
    "A1 no monkey-patching: names resolve to the definitions in /repo and to the installed networkx/lark",
    "python-sat is absent: sat.py is executed against /verif/shim/pysat (trusted stub written to the assumed pysat contract)",
    "bounded part: only the stated finite scope is explored; it is never counted as proved",
]


def _b(prop):
    m = importlib.import_module(f"bounded.{prop.lower()}")
    return m.RULE, m.BOUND


CHECKS = {}
NOT_APPLICABLE = {}
TECHNIQUE = {
    "proof": "contract-based deductive verification: sidecar contracts, VCs generated from the real AST, z3/cvc5; bounded stand-in of the same contracts for the rest",
    "bounded": "bounded stand-in of the sidecar contract on the real function (contract checked at run time over an enumerated finite scope); no obligation proved",
}


def register(prop, level, level_text, level_note, proof=False, bounded=True, explanation="", assumptions=(), **kw):
    cfg = {"level_text": level_text, "level_note": level_note, "level": level, "proof": proof, "bounded": bounded, "explanation": explanation,
           "assumptions": A_COMMON + list(assumptions)}
    cfg.update(kw)
    if bounded:
        try:
            cfg["rule"], cfg["bound"] = _b(prop)
        except Exception as e:  # registry must stay importable
            cfg["rule"], cfg["bound"] = f"(module import failed: {e})", ""
    CHECKS[prop] = cfg


register("C16", "exploration",
         "Bounded: the contract of remove_unloaded (exact deleted set = dead logic minus protected nodes, frame on survivors, returned list, idempotence) is evaluated on the real method over an exhaustive small scope and random DAGs.",
         "oracle = reachability via networkx; scope as stated in evidence.bound",
         proof=True, explanation="bounded stand-in of the remove_unloaded contract on the real function")

register("C01", "exploration",
         "Bounded: solve()/cnf() contract (False iff no consistent valuation agrees with A; result total, Boolean, consistent, agrees with A; cnf models projected on nodes == consistent valuations) checked on the real functions against an independent simulator.",
         "oracle = vlib.oracle (exhaustive enumeration over free signals + feedback vertex set); pysat shim trusted",
         proof=True, explanation="bounded stand-in of the cnf/solve contract")

register("C05", "exploration",
         "Bounded: contracts of limit_fanin/limit_fanout (same io, bound respected, every original node keeps its function - decided relationally R1+R2 by enumeration -, result lint-clean), insert_registers (flops made transparent == original) and acyclic_unroll on acyclic circuits, on the real functions.",
         "oracle = vlib.oracle/sem; scope in evidence.bound",
         explanation="bounded stand-in of the C05 contracts")

register("C04", "exploration",
         "Bounded: miter contract (inputs = tied startpoints, output sat, both copies faithful, ties respected, sat == some compared endpoint differs under EVERY consistent valuation, every agreeing pair of valuations present, solve(m,{sat:1}) False iff no difference) on the real function.",
         "oracle = vlib.oracle; scope in evidence.bound",
         proof=True, explanation="bounded stand-in of the miter contract")

register("C08", "exploration",
         "Bounded: model_count == number of startpoint valuations extending to a consistent valuation with the assumptions; signal_probability == exact fraction; the DIMACS file handed to `approxmc` (vendored exact projected counter with independent parser) has exactly that many projected models.",
         "oracle = brute-force enumeration (vlib.oracle); `approxmc` replaced by /verif/shim/bin/approxmc",
         explanation="bounded stand-in of the C08 contracts")

register("C20", "exploration",
         "Bounded: lint raises ValueError exactly when a documented rule (per flags) is violated - compared with a spec predicate written from the property statement - on exhaustive tiny ill-formed graphs and random ones, 16 flag combinations; generators' outputs lint-clean.",
         "oracle = vlib.spec.lint_violations; scope in evidence.bound",
         proof=True, explanation="bounded stand-in of the lint contract")

register("C07", "exploration",
         "Bounded: the representation invariant `wired` (from the property statement) is monitored after every call of exhaustive short and random long sequences of construction-API calls with valid and invalid arguments; rejected calls must leave the edge set unchanged and raise ValueError (KeyError tolerated only for set_output of an absent node).",
         "oracle = vlib.spec.wired_violations; scope in evidence.bound",
         proof=True, explanation="bounded stand-in of the C07 invariant")

register("C12", "exploration",
         "Bounded: every listed graph query is compared with an independent graph-theoretic definition on all DAGs up to 5 nodes, small cyclic digraphs and random circuits, for single nodes and node lists.",
         "oracles = small reachability / longest-path routines in bounded/c12.py; scope in evidence.bound",
         proof=True, explanation="bounded stand-in of the C12 contracts")

register("C13", "exploration",
         "Bounded: generated adders/muxes/popcounts are simulated (independent simulator) against integer arithmetic exhaustively for small widths and on random vectors up to width 64; clog2 against integer bit_length on all small n and around every power of two up to 2^80; bit helpers round-trip; every block lint-clean.",
         "oracle = integer arithmetic + vlib.oracle.simulate; scope in evidence.bound",
         hashseeds={"quick": 2, "thorough": 4},
         proof=True, explanation="bounded stand-in of the C13 contracts")

register("C10", "exploration",
         "Bounded: ternary(c) is simulated under every 0/1/X input pattern and both binary fillings of each X; mapping[n]==1 iff Kleene evaluation gives X, else n carries the Kleene value; c is contained unchanged; result lint-clean with exactly the inputs and their companions free.",
         "oracle = Kleene evaluator in vlib.oracle; scope in evidence.bound",
         explanation="bounded stand-in of the ternary contract")

register("C09", "exploration",
         "Bounded: unroll/sequential_unroll are simulated for every initial state and input sequence and compared, io by io and step by step, with iterated execution of the original circuit (cycle-accurate for flop blackboxes); free inputs and outputs of the unrolled circuit must be exactly those the property names.",
         "oracle = iterated vlib.oracle.simulate; scope in evidence.bound",
         explanation="bounded stand-in of the unroll contracts")

register("C06", "exploration",
         "Bounded: the result of add_subcircuit / add_blackbox+fill_blackbox / strip_blackboxes is compared (node set, io lists, registry, and the full set of consistent valuations) with the composite built independently from the property statement.",
         "oracle = independently built composite + vlib.sem.refines; scope in evidence.bound",
         proof=True, explanation="bounded stand-in of the composition contracts")
register("C11", "exploration",
         "Bounded: sat / dif_out / sen_out of the two transforms and the values of sensitize, sensitivity, influence(exact), avg_sensitivity are compared with an independent evaluator that inverts n (or a startpoint) under every valuation.",
         "oracle = independent forced-inversion evaluator; pysat shim trusted; scope in evidence.bound",
         explanation="bounded stand-in of the sensitivity contracts")
register("C17", "exploration",
         "Bounded only (dominator reasoning is outside what the verifier built here can carry): the supergate contract (single output, topological order, cover of the cone, wiring identical to limit_fanin(c,2), pairwise disjoint input cones, refilled super-circuit equivalent) is checked at run time.",
         "limit_fanin(c,2) is re-run by the check and assumed to pick the same grouping inside supergates (checked: two runs agree, else wiring clauses are skipped)",
         explanation="bounded stand-in of the supergates contract; 0 obligations proved")
register("C18", "exploration",
         "Bounded: acyclic_unroll output is acyclic, lint-clean, same outputs, inputs = original + one aux per cut node; for every input valuation and every brute-force fixed point of the cyclic circuit the unrolled outputs equal the stable values.",
         "oracle = brute-force fixed points (vlib.oracle); aux input <-> feedback node by the name c0_aux_in_<f>; scope in evidence.bound",
         explanation="bounded stand-in of the acyclic_unroll contract")

register("C19", "exploration",
         "Bounded: ~70 call recipes covering every public function of tx/props/sat/io writers/lint and the read-only Circuit methods (normal and raising argument shapes) are run on random circuits; deep snapshots before/after, object-identity checks on graph/attribute/adjacency dicts and registry, and an edit battery in both directions.",
         "snapshot = nodes+attributes+edges+name+registry (vlib.circ.snapshot); scope in evidence.bound",
         proof=True, explanation="bounded stand-in of the frame/no-alias contract")

register("C02", "exploration",
         "Bounded: generated netlists of the structural subset (precedence families, random expression trees, primitive and blackbox instances, shuffled order, fuzzed layout, comments, synthetic-looking names, port mismatches) are parsed by the real pipeline and compared net by net, under every valuation, with an independent evaluator of the subset.",
         "oracle = vlib.vlog evaluator written from the Verilog semantics of the subset; lark grammar is data, only testable by running it",
         explanation="bounded stand-in of the parser contract")

register("C03", "exploration",
         "Bounded: write (both styles) then read back generated circuits; name, io, registry, per-pin nets, function at every output and driven blackbox input pin under every valuation, graph identity when no constants and behavioral=False; a sample through to_file/from_file.",
         "oracle = vlib.oracle simulation of both circuits; scope in evidence.bound",
         explanation="bounded stand-in of the round-trip contract")

register("C14", "exploration",
         "Bounded only (five regular expressions vs an LALR parser over all texts: no contract a solver can discharge): generated netlists of the documented subset with fuzzed layout are parsed by both parsers and the circuits compared (io, registry, graph identity modulo constant names).",
         "both sides are the code under test (relational property); the full parser is checked separately by C02",
         explanation="bounded stand-in; 0 obligations proved")

register("C15", "exploration",
         "Bounded: bench texts from a dialect model (both cases, BUFF, DFF chains, line orders, whitespace variants, comments) are read by the real reader and compared net by net under every valuation with an independent evaluator; writer->reader round trip on generated circuits incl. constants.",
         "oracle = bench evaluator in bounded/c15.py + vlib.oracle; regex tokenisation only testable by running it",
         explanation="bounded stand-in of the bench contracts")


# ---------------------------------------------------------------------------------------------------------------
# Claimed levels for the properties whose proved core is complete on the current tree (DESIGN section 12).
# (`proof` is claimed only when every obligation of the listed core is discharged; everything else stays bounded.)
LEVELS = {
    "C16": ("proof",
            "Proof: every postcondition of remove_unloaded taken from the property statement (returned list = deleted set, never deletes a protected node for either value of the flag, survivors keep type/output/fan-in, fixpoint, graph invariant, registry untouched) is discharged by z3 on VCs generated from the current source of the real method, with the worklist invariant of DESIGN 8/C16; M2 (Lean-checked) links the proved local facts to 'exactly the dead logic'. The bounded stand-in of the same contract runs as cross-check and counterexample finder.",
            "assumed: networkx DiGraph contracts (pyvc/models.py); the contracts of the Circuit methods it calls (remove: verified by C07's check; fanin, fanout, type, is_output: by C12's check) are used, not re-verified here; acyclicity only enters through M2; termination not proved"),
    "C20": ("proof",
            "Proof for lint itself: 'raises ValueError iff a documented rule is violated, raises nothing else, touches nothing' is discharged for all 16 flag combinations at once (flags symbolic) on VCs generated from the real source, with per-rule loop invariants. Second half (library outputs are lint-clean) is bounded: generators, parser outputs and transform results are checked against the spec predicate, not against cg.lint.",
            "assumed: networkx contracts; contracts of Circuit.type/fanin/fanout/is_output/nodes are verified by C12's check and used here; string facts about '.' are uninterpreted (has_dot / prefix before the first dot) and shared by code model and spec"),
    "C01": ("proof",
            "Proof: sat.cnf is sound and complete per gate arm for an arbitrary assignment (and/nand/or/nor with unbounded fan-in, buf/not/bb_input incl. undriven, constants, inputs, parity gates with 1..2 drivers, every node variable occurs in a clause); add_assumptions, construct_solver and solve are proved against that contract and the assumed pysat contract (False only if no consistent valuation agrees with A; otherwise a total, consistent valuation agreeing with A; ValueError only for unencodable types / unknown assumption keys). Parity gates with >=3 drivers (the auxiliary chain) are covered by the bounded stand-in only.",
            "assumed: pysat contract (python-sat absent; shim written to it), networkx contracts; contracts of Circuit.type/fanin/nodes verified by C12's check; M1, M6 (Lean-checked) for the functional reading / witness extension; parity chain >=3: bounded"),
    "C04": ("proof",
            "Proof: the structural postcondition of tx.miter (node set, disjointness from add()'s existence checks, copies with inputs turned into buffers, ties, xor per endpoint, or/buf output, inputs = tied startpoints, outputs = {sat}, arguments untouched, fresh result) is discharged on the real body for self/pair and default/explicit startpoint-endpoint variants, and the encoding lemma (sat <=> some compared endpoint differs; ties; untied copy inputs free) is discharged over that structure. solve(miter,{sat:1}) then follows from the C01 contract. Bounded stand-in as cross-check.",
            "contracts used, each verified by the check of its home property: Circuit.add, connect (C07), startpoints, endpoints (C12), add_subcircuit for the call shape miter uses (C06: body == contract); assumed: networkx contracts; M1, M5 (graph-isomorphism invariance of consistency, not Lean-checked)"),
    "C07": ("proof",
            "Proof by induction over call sequences. Invariant Inv = `wired` exactly as the property states it (graph invariant, every node typed with a supported type, the four wiring clauses, every recorded instance has its pins with the right pin types unless the pin node is in R) plus one auxiliary clause (two recorded instances share a pin node only if it is in R), where the ghost set R = pin nodes the caller removed so far. pyvc discharges, on VCs generated from the current source: (base) the empty circuit satisfies Inv; (step) for each of add (default flags, uid=True; fan-in / fan-out none, str, list, set), connect and disconnect (all 9 combinations of str / list / set), remove, set_output (str, list, set incl. absent nodes), add_blackbox (no connections, dict of str, dict of lists), add_subcircuit (no connections, one connection, dict of str, dict of lists, strip_io True / False; the child satisfies Inv for its own R) and fill_blackbox: Inv before implies Inv after on EVERY normal and exceptional exit, a rejected call leaves the edge set (for the blackbox operations also the registry) unchanged and raises ValueError or KeyError; add(uid=True) leaves every existing node as it was (body == contract). M8 (Lean-checked) turns base + step into the statement about all histories. The bounded stand-in (operation sequences monitored on the real object) runs as cross-check and counterexample finder.",
            "not covered by the proof: dicts that mix str and list values, other iterables as arguments; assumed: networkx / container contracts (pyvc/models.py), the read-only queries' contracts (verified by C12's check), body == contract of add_subcircuit / add_blackbox for 0 / 1 connections (C06's check; the variants with a connection dict are proved directly on the bodies here); termination not proved; circuits passed as children were themselves built through this API (they satisfy Inv)"),
    "C19": ("proof",
            "Proof of the frame condition by an effect / may-alias analysis over the real ASTs (pyvc/frame.py): for each of the 64 public functions of tx, props, sat, the io writers, utils.lint/visualize and the read-only Circuit methods, every potentially mutating operation (Circuit mutators, networkx graph mutators, dict/attribute stores, in-place relabel) is shown to be applied only to objects allocated in that activation, on all branches and exceptional edges, and every returned circuit (also inside returned containers) is shown not to share its graph, node-attribute dicts or registry with an argument. Circuit.copy additionally has its contract (fresh graph and registry, equal views) proved on its body. Independence under later edits is exercised by the bounded edit battery.",
            "assumed: effect summaries of networkx / dict operations and of the library's own mutators (pyvc/frame.py: copy() and relabel_nodes(copy=True) return fresh objects, subgraph() is a view sharing attribute dicts, BlackBox objects are immutable and shared by design); assume-guarantee between library functions (each callee's fresh-result summary is the obligation of its own task); values are abstracted, so a flagged site is never a counterexample: on unchanged source it is 'undecided', on changed source it is reported as a failed obligation (no-failing-input-found)"),
}
for _p, (_lvl, _txt, _note) in LEVELS.items():
    CHECKS[_p]["level"] = _lvl
    CHECKS[_p]["level_text"] = _txt
    CHECKS[_p]["level_note"] = _note
    CHECKS[_p]["lean"] = True
CHECKS["C05"]["proof"] = True
PROVED_PART = {
    "C05": "proved part (tx.limit_fanout, tx.limit_fanin on their bodies, k symbolic): a returning call had k >= 2, only ValueError/KeyError raised, argument untouched, result new, original nodes keep type and output mark, added nodes are non-output gates, hence same primary inputs and outputs. Bound and preserved functions: bounded only",
    "C06": "proved part: Circuit.add_subcircuit body == its splice contract for 0 / 1 connections (symbolic and literal instance names, strip_io True/False), Circuit.add_blackbox (no connections) body == contract, Circuit.fill_blackbox: splice postconditions (node set, copied types, edges, registry) on the body. The functional-substitution statement, strip_blackboxes and >= 2 connections: bounded only",
    "C12": "proved part (body == contract): type, is_output, nodes, edges, io, inputs, outputs, fanin, fanout, startpoints / endpoints (with and without argument), transitive_fanin / transitive_fanout and is_cyclic relative to the assumed contracts of networkx.ancestors / descendants / is_directed_acyclic_graph. Depth functions, topo_sort, reconvergent_fanout_nodes, kcuts: bounded only",
    "C13": "proved part: utils.clog2 (2^(r-1) < n <= 2^r; ValueError iff n < 1); logic.half_adder and logic.full_adder on their bodies: for every valuation consistent with the returned circuit the sum and carry equations hold, io lists, C07 wiring clauses (full_adder rests on the add_subcircuit contract with two connections, assumed for >= 2). adder, mux, popcount, bit helpers: bounded only",
}
for _p, _t in PROVED_PART.items():
    CHECKS[_p]["level_note"] = CHECKS[_p]["level_note"] + " | " + _t
for _p in ("C05", "C06", "C12", "C13"):
    CHECKS[_p]["level_text"] = ("Bounded stand-in of the contract, PLUS proved obligations for part of the functions the property depends on "
                                "(reported in evidence.coverage.obligations/functions_under_contract; not claimed as a proof of the whole property): ") + CHECKS[_p]["level_text"]

# in-memory mutants run by the thorough tier (vacuity guard for the contracts; reported in evidence, no verdict)
MUTANTS = {
    "C05": [("C05/limit_fanout[structure]", "limit_fanout"), ("C05/limit_fanin[structure]", "limit_fanin")],
    "C07": [("layer1/Circuit.connect", "Circuit.connect"), ("layer1/Circuit.add[default]", "Circuit.add"), ("C07/fill_blackbox on the body", "Circuit.fill_blackbox"),
            ("C07/add_blackbox[connections] on the body", "Circuit.add_blackbox"), ("C07/add_subcircuit[connections] on the body", "Circuit.add_subcircuit")],
    "C06": [("layer2/add_subcircuit[no connections]", "Circuit.add_subcircuit"), ("layer2/add_blackbox[no connections]", "Circuit.add_blackbox")],
    "C16": [("C16/remove_unloaded", "Circuit.remove_unloaded")],
    "C04": [("C04/miter[pair,default]", "miter")],
    "C01": [("C01/cnf", "cnf")],
    "C12": [("layer1/Circuit.fanin", "Circuit.fanin"), ("layer1/Circuit.startpoints", "Circuit.startpoints")],
    "C13": [("C13/half_adder", "half_adder"), ("C13/full_adder", "full_adder")],
    "C20": [("C20/lint", "lint")],
}
for _p, _m in MUTANTS.items():
    CHECKS[_p]["mutants"] = _m
