/- Meta-lemmas M1 and M2 of /verif/DESIGN.md (section 5.2), checked with `lean lean/MetaLemmas.lean` (Lean 4 + Mathlib). -/
import Mathlib.Logic.Relation
import Mathlib.Order.WellFounded
import Mathlib.Logic.Basic

/-- Abstract combinational circuit: nodes `N`, a well-founded fan-in relation `r` (acyclic, finite-depth),
    and for each node a gate function of the values of its fan-in (sources are nodes with a constant-free
    gate: their value is given by `src`).  M1: there is exactly one valuation satisfying every gate equation. -/
theorem M1 {N α : Type} (r : N → N → Prop) (hwf : WellFounded r)
    (gate : (n : N) → ((m : N) → r m n → α) → α) :
    ∃! v : N → α, ∀ n, v n = gate n (fun m _ => v m) := by
  refine ⟨hwf.fix (fun n ih => gate n ih), ?_, ?_⟩
  · intro n
    exact hwf.fix_eq (fun n ih => gate n ih) n
  · intro w hw
    funext n
    induction n using hwf.induction with
    | _ n ih =>
      rw [hw n, hwf.fix_eq (fun n ih => gate n ih) n]
      congr 1
      funext m hm
      exact ih m hm

/-- M2: in a well-founded "drives" order (acyclic circuit), if every unprotected node that has no
    live successor is dead, i.e. `dead` is closed under "all successors dead and not protected",
    then a node is dead iff no protected node is reachable from it.  Stated as the two inclusions
    the C16 contract needs. -/
theorem M2_dead_sound {N : Type} (E : N → N → Prop) (prot deleted : N → Prop)
    (h1 : ∀ d, deleted d → ¬ prot d)
    (h2 : ∀ d, deleted d → ∀ s, E d s → deleted s) :
    ∀ d, deleted d → ∀ p, Relation.ReflTransGen E d p → ¬ prot p := by
  intro d hd p hp
  have : deleted p := by
    induction hp with
    | refl => exact hd
    | tail _ hbc ih => exact h2 _ ih _ hbc
  exact h1 p this

theorem M2_dead_complete {N : Type} (E : N → N → Prop) (hwf : WellFounded (fun a b => E b a))
    (prot kept : N → Prop)
    (hfix : ∀ n, kept n → ¬ prot n → ∃ s, E n s ∧ kept s) :
    ∀ n, kept n → ∃ p, Relation.ReflTransGen E n p ∧ prot p := by
  intro n
  induction n using hwf.induction with
  | _ n ih =>
    intro hk
    by_cases hp : prot n
    · exact ⟨n, Relation.ReflTransGen.refl, hp⟩
    · obtain ⟨s, hs, hks⟩ := hfix n hk hp
      obtain ⟨p, hsp, hpp⟩ := ih s hs hks
      exact ⟨p, Relation.ReflTransGen.head hs hsp, hpp⟩

/-- M7: refinement pairs (R1: every consistent valuation of the refined object restricts to a consistent valuation of
    the original; R2: every consistent valuation of the original extends) compose.  Used to pass from "each regrouping
    step refines" to "the result of the loop refines the argument". -/
theorem M7_refines_trans {V0 V1 V2 : Type} (C0 : V0 → Prop) (C1 : V1 → Prop) (C2 : V2 → Prop)
    (r10 : V1 → V0) (r21 : V2 → V1)
    (h1 : (∀ v, C1 v → C0 (r10 v)) ∧ (∀ v, C0 v → ∃ w, C1 w ∧ r10 w = v))
    (h2 : (∀ v, C2 v → C1 (r21 v)) ∧ (∀ v, C1 v → ∃ w, C2 w ∧ r21 w = v)) :
    (∀ v, C2 v → C0 (r10 (r21 v))) ∧ (∀ v, C0 v → ∃ w, C2 w ∧ r10 (r21 w) = v) := by
  constructor
  · intro v hv
    exact h1.1 _ (h2.1 _ hv)
  · intro v hv
    obtain ⟨w, hw, rfl⟩ := h1.2 v hv
    obtain ⟨u, hu, rfl⟩ := h2.2 w hw
    exact ⟨u, hu, rfl⟩

/-- Objects registered in the IDPool by `sat.cnf`: node names and the tuple keys of the parity auxiliaries. -/
inductive PObj (N : Type) where
  | nm : N → PObj N
  | xorpair : PObj N → PObj N → PObj N
  | xorinv : N → PObj N

def PObj.ext {N : Type} (v : N → Bool) : PObj N → Bool
  | .nm n => v n
  | .xorpair p q => xor (PObj.ext v p) (PObj.ext v q)
  | .xorinv n => !(v n)

/-- M6: every valuation of the node names extends to the auxiliary objects with the witness values the
    completeness half of the cnf contract assumes (structural recursion). -/
theorem M6_witness_exists {N : Type} (v : N → Bool) :
    ∃ mu : PObj N → Bool, (∀ n, mu (.nm n) = v n) ∧
      (∀ p q, mu (.xorpair p q) = xor (mu p) (mu q)) ∧ (∀ n, mu (.xorinv n) = !(mu (.nm n))) :=
  ⟨PObj.ext v, fun _ => rfl, fun _ _ => rfl, fun _ => rfl⟩

/-! ## M8  An invariant preserved by every operation holds after every history (C07)

`State` is a circuit together with the ghost set `R` of pin nodes the caller removed so far; `step s o s'` says that
operation `o` (with its arguments, successful or rejected) can take `s` to `s'`.  The per-operation lemmas proved by
pyvc are exactly the hypothesis `hstep` for the invariant `Inv = wired_R ∧ pins_distinct_R`. -/

inductive Run {State Op : Type} (step : State → Op → State → Prop) : State → List Op → State → Prop
  | nil (s : State) : Run step s [] s
  | cons {s s' s'' : State} {o : Op} {os : List Op} : step s o s' → Run step s' os s'' → Run step s (o :: os) s''

theorem M8_invariant_over_histories {State Op : Type} (Inv : State → Prop) (step : State → Op → State → Prop)
    (hstep : ∀ s o s', Inv s → step s o s' → Inv s') :
    ∀ (os : List Op) (s s' : State), Inv s → Run step s os s' → Inv s' := by
  intro os
  induction os with
  | nil =>
    intro s s' h r
    cases r
    exact h
  | cons o os ih =>
    intro s s' h r
    cases r with
    | cons h1 h2 => exact ih _ _ (hstep _ _ _ h h1) h2
