"""C19 frame mode (DESIGN 8/C19): a may-alias / effect analysis over the real ASTs.

Values are forgotten; for every expression we track which *regions* it may denote:
   ("arg", p)        the Circuit object passed as parameter p
   ("arg.graph", p)  its networkx graph        ("arg.attrs", p)  the per-node attribute dicts of that graph
   ("arg.bbs", p)    its blackbox dict         ("view", p)       a subgraph view sharing ("arg.attrs", p)
   ("fresh", k)      an object allocated in this activation at site k (graphs, dicts, circuits); circuits allocated
                     here have field maps  graph -> regions, bbs -> regions
Both branches of every test are followed, loops are iterated to a fixpoint.  Obligations (one per site):
   * no mutating operation is applied to a region of an argument,
   * a returned Circuit's graph / attribute dicts / registry are not an argument's.
This is a sound over-approximation under the assumed effect summaries below (networkx / dict operations and the
library's own mutators); a flagged site is `undecided`, never a violation by itself."""
import ast

from pyvc import engine

# methods of Circuit that mutate the receiver (its graph, attribute dicts or registry)
CIRCUIT_MUTATORS = {"add", "connect", "disconnect", "remove", "relabel", "set_type", "set_output", "add_blackbox",
                    "add_subcircuit", "fill_blackbox", "remove_unloaded"}
GRAPH_MUTATORS = {"add_node", "add_nodes_from", "add_edge", "add_edges_from", "remove_node", "remove_nodes_from",
                  "remove_edge", "remove_edges_from", "update", "clear"}
DICT_MUTATORS = {"pop", "update", "clear", "setdefault", "popitem", "__setitem__"}
# library functions returning new circuits that share nothing with their arguments (each is itself checked here)
FRESH_RESULT_FUNCS = {"strip_io", "strip_outputs", "strip_inputs", "strip_blackboxes", "relabel", "subcircuit", "ternary", "miter",
                      "sequential_unroll", "unroll", "sensitization_transform", "sensitivity_transform", "limit_fanin", "limit_fanout",
                      "acyclic_unroll", "supergates", "insert_registers", "syn", "aig", "verilog_to_circuit", "bench_to_circuit",
                      "from_file", "from_lib", "popcount", "adder", "mux", "half_adder", "full_adder", "parse_verilog_netlist",
                      "fast_parse_verilog_netlist", "copy"}


class Frame:
    def __init__(self, relpath, qual):
        self.relpath, self.qual = relpath, qual
        self.fn, self.seg, self.sha = engine.find_function(relpath, qual)
        params = [a.arg for a in self.fn.args.args]
        self.circ_params = [p for p in params if p in ("c", "c0", "c1", "self", "sc", "circuit")]
        self.sites = []      # (line, description, ok)
        self.fresh_fields = {}  # ("fresh", k) -> {"graph": set, "bbs": set}
        self.returns = []
        self.contains = {}   # container region -> regions of the objects stored in it

    # ---- regions
    def arg_regions(self, regs):
        return {r for r in regs if r[0].startswith("arg") or r[0] == "view"}

    def eval(self, e, env):
        """regions the expression may denote (empty set: not a tracked mutable object)"""
        if isinstance(e, ast.Name):
            return set(env.get(e.id, set()))
        if isinstance(e, ast.Attribute):
            base = self.eval(e.value, env)
            out = set()
            for r in base:
                if r[0] == "arg" and e.attr == "graph":
                    out.add(("arg.graph", r[1]))
                elif r[0] == "arg" and e.attr == "blackboxes":
                    out.add(("arg.bbs", r[1]))
                elif r[0] == "fresh" and r in self.fresh_fields and e.attr in ("graph", "blackboxes"):
                    out |= self.fresh_fields[r]["graph" if e.attr == "graph" else "bbs"]
                elif r[0] in ("arg.graph", "view") and e.attr in ("nodes", "edges", "_node", "_adj", "_pred", "adj", "pred", "succ"):
                    out.add(("arg.attrs", r[1]))
                elif r[0] == "fresh" and e.attr in ("nodes", "edges"):
                    out.add(r)
            return out
        if isinstance(e, ast.Subscript):
            base = self.eval(e.value, env)
            out = set()
            for r in base:
                if r[0] == "arg.attrs":
                    out.add(("arg.attrdict", r[1]))   # g.nodes[n]: the attribute dict of a node of the argument
                elif r[0] == "fresh":
                    out.add(r)
                    out |= self.contains.get(r, set())
                # a value read out of an attribute dict / the registry (str, bool, BlackBox) is immutable: untracked
            return out
        if isinstance(e, ast.Call):
            return self.call(e, env)
        if isinstance(e, ast.IfExp):
            return self.eval(e.body, env) | self.eval(e.orelse, env)
        if isinstance(e, (ast.BoolOp,)):
            out = set()
            for v in e.values:
                out |= self.eval(v, env)
            return out
        if isinstance(e, (ast.Tuple, ast.List)):
            out = set()
            for v in e.elts:
                out |= self.eval(v, env)
            return out
        if isinstance(e, ast.NamedExpr):
            return self.eval(e.value, env)
        for ch in ast.iter_child_nodes(e):  # side effects inside other expressions
            if isinstance(ch, ast.expr):
                self.eval(ch, env)
        return set()

    def fresh(self, node, graph=None, bbs=None):
        r = ("fresh", f"{node.lineno}:{node.col_offset}")
        if graph is not None or bbs is not None:
            f = self.fresh_fields.setdefault(r, {"graph": set(), "bbs": set()})
            f["graph"] |= graph or {("fresh", f"{node.lineno}:{node.col_offset}.g")}
            f["bbs"] |= bbs or {("fresh", f"{node.lineno}:{node.col_offset}.b")}
        return r

    def mutate(self, node, regs, what):
        bad = self.arg_regions(regs)
        self.sites.append((node.lineno, f"{what} (statement #{node.lineno}) touches only objects of this activation", not bad,
                           sorted(map(str, bad))))

    def call(self, e, env):
        f = e.func
        for a in e.args:
            self.eval(a, env)
        for k in e.keywords:
            self.eval(k.value, env)
        if isinstance(f, ast.Attribute):
            recv = self.eval(f.value, env)
            name = f.attr
            if name in ("append", "add", "insert", "put", "extend", "update") and recv and all(r[0] == "fresh" and r not in self.fresh_fields for r in recv):
                stored = set()
                for a in e.args:
                    stored |= self.eval(a, env)
                for r in recv:
                    self.contains.setdefault(r, set()).update(stored)
            if name in ("get", "pop", "values", "items") and any(r in self.contains for r in recv):
                out = set()
                for r in recv:
                    out |= self.contains.get(r, set())
                return out
            if name in CIRCUIT_MUTATORS and any(r[0] in ("arg", "fresh") for r in recv) and not self._is_module(f.value):
                circ = {r for r in recv if r[0] == "arg"}
                # a mutator applied to a circuit allocated here mutates that circuit's graph/registry regions
                inner = set()
                for r in recv:
                    if r[0] == "fresh" and r in self.fresh_fields:
                        inner |= self.fresh_fields[r]["graph"] | self.fresh_fields[r]["bbs"]
                self.mutate(e, circ | inner, f"Circuit.{name}()")
                return set()
            if name in GRAPH_MUTATORS and any(r[0] in ("arg.graph", "view", "fresh", "arg.attrs") for r in recv):
                self.mutate(e, recv, f"graph.{name}()")
                return set()
            if name in DICT_MUTATORS and any(r[0] in ("arg.bbs", "arg.attrs", "arg.attrdict") for r in recv):
                self.mutate(e, recv, f"dict.{name}()")
                return set()
            if name == "copy":
                if any(r[0] == "arg" or (r[0] == "fresh" and r in self.fresh_fields) for r in recv):
                    return {self.fresh(e, graph=set(), bbs=set())}  # Circuit.copy(): fresh graph and registry
                return {self.fresh(e)}
            if name == "subgraph":
                return {("view", r[1]) if r[0] == "arg.graph" else r for r in recv}
            if name == "relabel_nodes":
                copy_false = any(k.arg == "copy" and isinstance(k.value, ast.Constant) and k.value.value is False for k in e.keywords)
                tgt = self.eval(e.args[0], env) if e.args else set()
                if copy_false:
                    self.mutate(e, tgt, "nx.relabel_nodes(copy=False)")
                    return tgt
                return {self.fresh(e)}
            if name in ("DiGraph",):
                return {self.fresh(e)}
            if name == "Circuit":
                return self._new_circuit(e, env)
            if name in FRESH_RESULT_FUNCS:
                return {self.fresh(e, graph=set(), bbs=set())}
            return set()
        if isinstance(f, ast.Name):
            if f.id == "Circuit":
                return self._new_circuit(e, env)
            if f.id in FRESH_RESULT_FUNCS:
                return {self.fresh(e, graph=set(), bbs=set())}
            if f.id in ("dict", "set", "list"):
                return {self.fresh(e)}
        return set()

    def _is_module(self, node):
        return isinstance(node, ast.Name) and node.id in ("cg", "nx", "re", "os", "shutil", "subprocess")

    def _new_circuit(self, e, env):
        graph, bbs = set(), set()
        names = ["name", "graph", "blackboxes"]
        for k, a in zip(names, e.args):
            if k == "graph":
                graph = self.eval(a, env)
            if k == "blackboxes":
                bbs = self.eval(a, env)
        for k in e.keywords:
            if k.arg == "graph":
                graph = self.eval(k.value, env)
            if k.arg == "blackboxes":
                bbs = self.eval(k.value, env)
        return {self.fresh(e, graph=set(graph), bbs=set(bbs))}

    # ---- statements
    def assign(self, tgt, regs, env, node):
        if isinstance(tgt, ast.Name):
            env[tgt.id] = set(regs)
        elif isinstance(tgt, (ast.Tuple, ast.List)):
            for t in tgt.elts:
                self.assign(t, regs, env, node)
        elif isinstance(tgt, ast.Subscript):
            base = self.eval(tgt.value, env)
            for r in base:
                if r[0] == "fresh" and r not in self.fresh_fields and regs:
                    self.contains.setdefault(r, set()).update(regs)
            if any(r[0] in ("arg.attrs", "arg.attrdict", "arg.bbs", "arg.graph", "view") for r in base) or any(r[0] == "fresh" for r in base):
                self.mutate(node, base, "item store")
        elif isinstance(tgt, ast.Attribute):
            base = self.eval(tgt.value, env)
            if any(r[0] == "arg" for r in base):
                self.mutate(node, base, f"attribute store .{tgt.attr}")
            for r in base:
                if r[0] == "fresh" and r in self.fresh_fields and tgt.attr in ("graph", "blackboxes"):
                    self.fresh_fields[r]["graph" if tgt.attr == "graph" else "bbs"] |= set(regs)

    def block(self, stmts, env):
        for s in stmts:
            self.stmt(s, env)

    def stmt(self, s, env):
        if isinstance(s, ast.Assign):
            regs = self.eval(s.value, env)
            for t in s.targets:
                self.assign(t, regs, env, s)
        elif isinstance(s, ast.AugAssign):
            self.eval(s.value, env)
            if isinstance(s.target, (ast.Subscript, ast.Attribute)):
                self.assign(s.target, set(), env, s)
        elif isinstance(s, ast.Expr):
            self.eval(s.value, env)
        elif isinstance(s, ast.Return):
            if s.value is not None:
                self.returns.append((s.lineno, self.eval(s.value, env)))
        elif isinstance(s, (ast.If,)):
            self.eval(s.test, env)
            e1, e2 = dict(env), dict(env)
            self.block(s.body, e1)
            self.block(s.orelse, e2)
            self._join(env, e1, e2)
        elif isinstance(s, (ast.For, ast.While)):
            if isinstance(s, ast.For):
                it = self.eval(s.iter, env)
                inside = set()
                for r in it:
                    inside |= self.contains.get(r, set())
                self.assign(s.target, inside, env, s)
            else:
                self.eval(s.test, env)
            for _ in range(3):  # fixpoint of the (finite, monotone) region maps
                e1 = dict(env)
                self.block(s.body, e1)
                before = {k: set(v) for k, v in env.items()}
                self._join(env, env, e1)
                if before == env:
                    break
            self.block(s.orelse, env)
        elif isinstance(s, ast.With):
            for it in s.items:
                self.eval(it.context_expr, env)
            self.block(s.body, env)
        elif isinstance(s, ast.Try):
            e1 = dict(env)
            self.block(s.body, e1)
            self._join(env, env, e1)
            for h in s.handlers:
                e2 = dict(env)
                self.block(h.body, e2)
                self._join(env, env, e2)
            self.block(s.orelse, env)
            self.block(s.finalbody, env)
        elif isinstance(s, ast.FunctionDef):
            sub = dict(env)
            self.block(s.body, sub)  # nested helpers see (and may mutate) the enclosing objects
        elif isinstance(s, ast.Delete):
            for t in s.targets:
                if isinstance(t, ast.Subscript):
                    self.mutate(s, self.eval(t.value, env), "del item")
        elif isinstance(s, ast.Raise) and s.exc is not None:
            self.eval(s.exc, env)

    @staticmethod
    def _join(dst, a, b):
        keys = set(a) | set(b)
        for k in keys:
            dst[k] = set(a.get(k, set())) | set(b.get(k, set()))

    def run(self):
        env = {p: {("arg", p)} for p in self.circ_params}
        self.block(self.fn.body, env)
        obligations = []
        seen = set()
        for line, what, ok, bad in self.sites:
            key = (line, what)
            if key in seen and ok:
                continue
            seen.add(key)
            obligations.append((f"frame:{what}", ok, bad))
        for line, regs in self.returns:
            leaked = set()
            todo, seen_r = list(regs), set()
            while todo:  # objects reachable through returned containers count as returned
                r_ = todo.pop()
                if r_ in seen_r:
                    continue
                seen_r.add(r_)
                todo.extend(self.contains.get(r_, ()))
            regs = seen_r
            for r in regs:
                if r[0] in ("arg.graph", "arg.bbs", "arg.attrs", "arg.attrdict", "view"):
                    leaked.add(r)
                if r[0] == "fresh" and r in self.fresh_fields:
                    leaked |= self.arg_regions(self.fresh_fields[r]["graph"]) | self.arg_regions(self.fresh_fields[r]["bbs"])
            # returning the argument object itself is an alias too (no library function is specified to do so)
            leaked |= {r for r in regs if r[0] == "arg" and self.qual not in ("Circuit.__iter__",)}
            obligations.append((f"no-alias:the value returned at line {line} shares no graph, attribute dict or registry with an argument",
                                not leaked, sorted(map(str, leaked))))
        if not obligations:
            obligations.append(("frame:the body contains no mutating operation and returns no circuit", True, []))
        return obligations
