"""Specification predicates over the symbolic views (DESIGN 4.2/4.3), written from the property statements."""
import z3

from pyvc.engine import SUPPORTED

NO_FANIN = ["input", "0", "1", "x", "bb_output"]
SINGLE = ["buf", "not", "bb_input"]
MULTI = ["and", "nand", "or", "nor", "xor", "xnor"]


def tin(ctx, t, names):
    return z3.Or([t == ctx.tval[n] for n in names])


def typed(ctx, g):
    x = ctx.fresh_name("tx")
    return z3.ForAll([x], z3.Implies(g.node(x), z3.And(z3.Select(g.hasty, x), tin(ctx, z3.Select(g.ty, x), SUPPORTED))))


def wired_edges(ctx, g):
    """the wiring clauses of C07 (everything except the registry clause)."""
    x, y, z = ctx.fresh_name("wx"), ctx.fresh_name("wy"), ctx.fresh_name("wz")
    ty = lambda n: z3.Select(g.ty, n)
    return z3.And(
        z3.ForAll([x, y], z3.Implies(g.edge(x, y), z3.Not(tin(ctx, ty(y), NO_FANIN)))),
        z3.ForAll([x, y, z], z3.Implies(z3.And(g.edge(x, z), g.edge(y, z), tin(ctx, ty(z), SINGLE)), x == y)),
        z3.ForAll([x, y], z3.Implies(g.edge(x, y), ty(x) != ctx.tval["bb_input"])),
        z3.ForAll([x, y, z], z3.Implies(z3.And(g.edge(x, y), g.edge(x, z), ty(x) == ctx.tval["bb_output"]),
                                        z3.And(y == z, ty(y) == ctx.tval["buf"]))),
    )


def registry_ok(ctx, g, bb, pin, removed=None):
    """every recorded instance has all its pin nodes with the right pin type (pin = 2-hole template inst.pin);
    `removed`: predicate of pin nodes the caller itself removed (the stated exception)."""
    i, p = ctx.fresh_name("ri"), ctx.fresh_name("rp")
    dom = lambda n: z3.Select(bb.dom, n)
    val = lambda n: z3.Select(bb.val, n)
    rem = (lambda n: removed(n)) if removed else (lambda n: z3.BoolVal(False))
    return z3.And(
        z3.ForAll([i, p], z3.Implies(z3.And(dom(i), ctx.bb_in(val(i), p), z3.Not(rem(pin(i, p)))),
                                     z3.And(g.node(pin(i, p)), z3.Select(g.ty, pin(i, p)) == ctx.tval["bb_input"]))),
        z3.ForAll([i, p], z3.Implies(z3.And(dom(i), ctx.bb_out(val(i), p), z3.Not(rem(pin(i, p)))),
                                     z3.And(g.node(pin(i, p)), z3.Select(g.ty, pin(i, p)) == ctx.tval["bb_output"]))),
    )


def wired(ctx, g, bb=None, pin=None, removed=None):
    cl = [g.wf(ctx), typed(ctx, g), wired_edges(ctx, g)]
    if bb is not None:
        cl.append(registry_ok(ctx, g, bb, pin, removed))
    return z3.And(cl)


def same_edges(ctx, g1, g0):
    x, y = ctx.fresh_name("ex"), ctx.fresh_name("ey")
    return z3.ForAll([x, y], g1.edge(x, y) == g0.edge(x, y))
