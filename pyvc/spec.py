"""Specification predicates over the symbolic views (DESIGN 4.2/4.3), written from the property statements."""
import z3

from pyvc.engine import SUPPORTED

NO_FANIN = ["input", "0", "1", "x", "bb_output"]
SINGLE = ["buf", "not", "bb_input"]
MULTI = ["and", "nand", "or", "nor", "xor", "xnor"]


def tin(ctx, t, names):
    return z3.Or([t == ctx.tval[n] for n in names])


def typed(ctx, g):
    x = ctx.fresh_name("tx")
    return z3.ForAll([x], z3.Implies(g.node(x), z3.And(z3.Select(g.hasty, x), tin(ctx, z3.Select(g.ty, x), SUPPORTED))))


def wired_edges(ctx, g):
    """the wiring clauses of C07 (everything except the registry clause)."""
    x, y, z = ctx.fresh_name("wx"), ctx.fresh_name("wy"), ctx.fresh_name("wz")
    ty = lambda n: z3.Select(g.ty, n)
    return z3.And(
        z3.ForAll([x, y], z3.Implies(g.edge(x, y), z3.Not(tin(ctx, ty(y), NO_FANIN)))),
        z3.ForAll([x, y, z], z3.Implies(z3.And(g.edge(x, z), g.edge(y, z), tin(ctx, ty(z), SINGLE)), x == y)),
        z3.ForAll([x, y], z3.Implies(g.edge(x, y), ty(x) != ctx.tval["bb_input"])),
        z3.ForAll([x, y, z], z3.Implies(z3.And(g.edge(x, y), g.edge(x, z), ty(x) == ctx.tval["bb_output"]),
                                        z3.And(y == z, ty(y) == ctx.tval["buf"]))),
    )


def registry_ok(ctx, g, bb, pin, removed=None):
    """every recorded instance has all its pin nodes with the right pin type (pin = 2-hole template inst.pin);
    `removed`: predicate of pin nodes the caller itself removed (the stated exception)."""
    i, p = ctx.fresh_name("ri"), ctx.fresh_name("rp")
    dom = lambda n: z3.Select(bb.dom, n)
    val = lambda n: z3.Select(bb.val, n)
    rem = (lambda n: removed(n)) if removed else (lambda n: z3.BoolVal(False))
    return z3.And(
        z3.ForAll([i, p], z3.Implies(z3.And(dom(i), ctx.bb_in(val(i), p), z3.Not(rem(pin(i, p)))),
                                     z3.And(g.node(pin(i, p)), z3.Select(g.ty, pin(i, p)) == ctx.tval["bb_input"]))),
        z3.ForAll([i, p], z3.Implies(z3.And(dom(i), ctx.bb_out(val(i), p), z3.Not(rem(pin(i, p)))),
                                     z3.And(g.node(pin(i, p)), z3.Select(g.ty, pin(i, p)) == ctx.tval["bb_output"]))),
    )


def pins_distinct(ctx, bb, pin, removed=None):
    """auxiliary invariant of the C07 induction (not part of the property statement, implied for every reachable state):
    two recorded instances share a pin node only if the caller removed that node at some point"""
    i, j, p, q = ctx.fresh_name("si"), ctx.fresh_name("sj"), ctx.fresh_name("sp"), ctx.fresh_name("sq")
    dom = lambda n: z3.Select(bb.dom, n)
    io = lambda n, x: z3.Or(ctx.bb_in(z3.Select(bb.val, n), x), ctx.bb_out(z3.Select(bb.val, n), x))
    rem = (lambda n: removed(n)) if removed else (lambda n: z3.BoolVal(False))
    return z3.ForAll([i, j, p, q], z3.Implies(z3.And(dom(i), dom(j), i != j, io(i, p), io(j, q), pin(i, p) == pin(j, q)), rem(pin(i, p))))


def wired(ctx, g, bb=None, pin=None, removed=None):
    cl = [g.wf(ctx), typed(ctx, g), wired_edges(ctx, g)]
    if bb is not None:
        cl.append(registry_ok(ctx, g, bb, pin, removed))
        cl.append(pins_distinct(ctx, bb, pin, removed))
    return z3.And(cl)


def same_edges(ctx, g1, g0):
    x, y = ctx.fresh_name("ex"), ctx.fresh_name("ey")
    return z3.ForAll([x, y], g1.edge(x, y) == g0.edge(x, y))


# ----------------------------------------------------------------------------- circuit semantics (DESIGN 4.3)
def gateok(ctx, ex, g, mu, n):
    """the gate equation of node n (DESIGN 4.3) under the assignment mu (restricted to node names)"""
    T = ctx.tval
    O = ctx.Obj
    val = lambda x: z3.Select(mu, O.nm(x))
    f, a, b = ctx.fresh_name("gf"), ctx.fresh_name("ga"), ctx.fresh_name("gb")
    t = z3.Select(g.ty, n)
    fi = lambda x: g.edge(x, n)
    all_ = z3.ForAll([f], z3.Implies(fi(f), val(f)))
    any_ = z3.Exists([f], z3.And(fi(f), val(f)))
    one = lambda body: z3.ForAll([a], z3.Implies(z3.And(fi(a), z3.ForAll([f], z3.Implies(fi(f), f == a))), body(a)))
    two = lambda body: z3.ForAll([a, b], z3.Implies(z3.And(a != b, fi(a), fi(b), z3.ForAll([f], z3.Implies(fi(f), z3.Or(f == a, f == b)))), body(a, b)))
    return z3.And(
        z3.Implies(t == T["and"], val(n) == all_), z3.Implies(t == T["nand"], val(n) == z3.Not(all_)),
        z3.Implies(t == T["or"], val(n) == any_), z3.Implies(t == T["nor"], val(n) == z3.Not(any_)),
        z3.Implies(z3.Or(t == T["buf"], t == T["bb_input"]), one(lambda p: val(n) == val(p))),
        z3.Implies(t == T["not"], one(lambda p: val(n) == z3.Not(val(p)))),
        z3.Implies(t == T["xor"], z3.And(one(lambda p: val(n) == val(p)), two(lambda p, q: val(n) == z3.Xor(val(p), val(q))))),
        z3.Implies(t == T["xnor"], z3.And(one(lambda p: val(n) == z3.Not(val(p))), two(lambda p, q: val(n) == z3.Not(z3.Xor(val(p), val(q)))))),
        z3.Implies(t == T["0"], z3.Not(val(n))), z3.Implies(t == T["1"], val(n)))


def witness(ctx, mu):
    """values of the auxiliary objects that make the encoding satisfiable (given in the sidecar, DESIGN 8 C01)"""
    O = ctx.Obj
    p, q = ctx.fresh("wp", O), ctx.fresh("wq", O)
    n = ctx.fresh_name("wn")
    return z3.And(z3.ForAll([p, q], z3.Select(mu, O.xorpair(p, q)) == z3.Xor(z3.Select(mu, p), z3.Select(mu, q))),
                  z3.ForAll([n], z3.Select(mu, O.xorinv(n)) == z3.Not(z3.Select(mu, O.nm(n)))))




def cnf_domain(ctx, g):
    """domain of the proved cnf contract: every node typed; single-input types have at most one driver (lint-clean);
    parity gates are driven (lint-clean) and -- variant restriction of the proof -- have at most two drivers"""
    T = ctx.tval
    x, y, z, w = ctx.fresh_name("rx"), ctx.fresh_name("ry"), ctx.fresh_name("rz"), ctx.fresh_name("rw")
    tin_ = lambda t, L: z3.Or([t == T[k] for k in L])
    ty = lambda n: z3.Select(g.ty, n)
    return [
        z3.ForAll([x], z3.Implies(g.node(x), z3.Select(g.hasty, x))),
        z3.ForAll([x, y, z], z3.Implies(z3.And(g.edge(x, z), g.edge(y, z), tin_(ty(z), ["buf", "not", "bb_input"])), x == y)),
        z3.ForAll([z], z3.Implies(z3.And(g.node(z), tin_(ty(z), ["xor", "xnor"])), z3.Exists([x], g.edge(x, z)))),
        z3.ForAll([x, y, w, z], z3.Implies(z3.And(g.edge(x, z), g.edge(y, z), g.edge(w, z), tin_(ty(z), ["xor", "xnor"])), z3.Or(x == y, x == w, y == w))),
    ]


ENCODABLE = ["and", "nand", "or", "nor", "not", "buf", "bb_input", "xor", "xnor", "0", "1", "bb_output", "input"]


def consistent(ctx, ex, g, mu):
    m = ctx.fresh_name("cm")
    return z3.ForAll([m], z3.Implies(g.node(m), gateok(ctx, ex, g, mu, m)))
