"""dev runner: python3-vt -m pyvc.dev <task-prefix>  -- runs tasks and prints per-obligation status"""
import sys, time, traceback
from pyvc import engine, verify
from pyvc.engine import Ctx, Unsupported

def main():
    import importlib
    mods = ["pyvc.tasks_layer1"] + [a for a in sys.argv[2:] if not a.startswith("-")]
    pref = sys.argv[1] if len(sys.argv) > 1 else ""
    for m in mods:
        mod = importlib.import_module(m)
        for name, task in mod.TASKS.items():
            if not name.startswith(pref):
                continue
            ctx = Ctx()
            t0 = time.time()
            try:
                info = task(ctx)
            except Unsupported as u:
                print(f"== {name}: OUTSIDE-SUBSET {u}")
                continue
            except Exception:
                print(f"== {name}: CRASH"); traceback.print_exc(); continue
            from pyvc.exec import FEAS_STATS
            print(f"== {name}: {len(ctx.obligations)} obligations (gen {time.time()-t0:.1f}s; feasibility {FEAS_STATS})")
            for ob in ctx.obligations:
                r = verify.solve(ctx, ob, 10000)
                flag = {"discharged": "ok ", "refuted": "REFUTED", "unknown": "UNKNOWN"}.get(r["status"], r["status"])
                print(f"   {flag} {r['time']:.2f}s {ob['id']}")
                if r["status"] != "discharged" and "-v" in sys.argv:
                    print("      ", r.get("model", r.get("detail"))[:800])
main()
