"""Assumed contracts of dependencies in executable form (DESIGN 5.1): networkx.DiGraph
operations, Python containers/strings, BlackBox accessors.  TRUSTED (conformance-tested
against the installed libraries by tools in /verif/pyvc/conformance.py)."""
import ast

import z3

from pyvc.engine import (NONE, BBDict, BoundMethod, CircuitRec, DictV, Graph, GraphNodesView, ModuleV, NameV, NodeAttrView,
                         ObjRef, Opaque, StrLit, TupleV, TypeV, Unsupported, alloc)
from pyvc.exec import B, BBItems, BBVal, Coll, ErrList, PairSet, SplitV, StrSet

ASSUMED_USED = set()


def used(name):
    ASSUMED_USED.add(name)


def define_set(ex, st, pred, tag="S"):
    """fresh array constant a with the defining axiom  forall x. a[x] <=> pred(x)  added to the path condition."""
    a = ex.ctx.arr_nb(tag)
    x = ex.ctx.fresh_name("dx")
    ax = z3.ForAll([x], z3.Select(a, x) == pred(x))
    ex.ctx.def_ids.add(ax.get_id())
    st.pc.append(ax)
    return a


def define_fi(ex, st, pred2, tag="FI"):
    """fresh nested array f with  forall u v. f[v][u] <=> pred2(u, v)."""
    NB = z3.ArraySort(ex.ctx.Name, B)
    f = ex.ctx.fresh(tag, z3.ArraySort(ex.ctx.Name, NB))
    u, v = ex.ctx.fresh_name("du"), ex.ctx.fresh_name("dv")
    ax = z3.ForAll([u, v], z3.Select(z3.Select(f, v), u) == pred2(u, v))
    ex.ctx.def_ids.add(ax.get_id())
    st.pc.append(ax)
    return f


def pairs_of(ex, v):
    if isinstance(v, PairSet):
        return v
    raise Unsupported(f"edge collection {v!r}")


def method(ex, base, name, e, st):
    ctx = ex.ctx
    # ---------------------------------------------------------------- circuitgraph objects -> summaries
    if isinstance(base, ObjRef) and base.kind == "Circuit":
        key = "Circuit." + name
        if key in ex.summaries:
            return ex.invoke(ex.summaries[key], base, e, st)
        raise Unsupported(f"no contract for Circuit.{name} (statement #{e.lineno})")
    if isinstance(base, ModuleV):
        key = base.name + "." + name
        if key in ("nx.DiGraph",):
            used("networkx.DiGraph()")
            return ObjRef(alloc(st, Graph.empty(ctx), "graph"), "DiGraph")
        if key in ("cg.Circuit",):
            return new_circuit(ex, st, e)
        if key == "nx.relabel_nodes":
            return relabel_nodes(ex, st, e)
        if key in ("nx.ancestors", "nx.descendants"):
            used("networkx." + name)
            args, _ = ex.args_of(e, st)
            g = st.g(args[0])
            n = ex.name_term(args[1])
            ex.split_raise(st, z3.Not(g.node(n)), "NetworkXError")
            r = ex.reach(g)
            return Coll((lambda x: r(x, n)) if name == "ancestors" else (lambda x: r(n, x)))
        if key == "nx.is_directed_acyclic_graph":
            used("networkx.is_directed_acyclic_graph")
            args, _ = ex.args_of(e, st)
            return ex.acyclic(st.g(args[0]))
        short = key.split(".", 1)[1] if "." in key else key
        for k in (key, short, "tx." + name, name):
            if k in ex.summaries:
                return ex.invoke(ex.summaries[k], None, e, st)
        raise Unsupported(f"no contract for {key} (statement #{e.lineno})")

    # ---------------------------------------------------------------- networkx.DiGraph
    if isinstance(base, ObjRef) and base.kind == "DiGraph":
        g = st.g(base)
        args, kwargs = ex.args_of(e, st)
        if name in ("predecessors", "successors"):
            used("DiGraph." + name)
            n = ex.name_term(args[0])
            ex.split_raise(st, z3.Not(g.node(n)), "NetworkXError")
            if name == "predecessors":
                return Coll(lambda x, g=g, n=n: g.edge(x, n))
            return Coll(lambda x, g=g, n=n: g.edge(n, x))
        if name in ("in_degree", "out_degree"):
            used("DiGraph." + name)
            n = ex.name_term(args[0])
            ex.split_raise(st, z3.Not(g.node(n)), "NetworkXError")
            mem = (lambda x: g.edge(x, n)) if name == "in_degree" else (lambda x: g.edge(n, x))
            ctx.local_sink = st.pc
            try:
                return ctx.card_of(mem, "deg")
            finally:
                ctx.local_sink = None
        if name == "add_edges_from":
            used("DiGraph.add_edges_from")
            ps = pairs_of(ex, args[0])
            FI = define_fi(ex, st, lambda u, v: z3.Or(g.edge(u, v), ps.mem(u, v)))
            y = ctx.fresh_name("ey")
            N = define_set(ex, st, lambda x: z3.Or(g.node(x), z3.Exists([y], z3.Or(ps.mem(x, y), ps.mem(y, x)))), "N")
            st.set_g(base, g.copy(N=N, FI=FI))
            return NONE
        if name == "remove_edges_from":
            used("DiGraph.remove_edges_from")
            ps = pairs_of(ex, args[0])
            FI = define_fi(ex, st, lambda u, v: z3.And(g.edge(u, v), z3.Not(ps.mem(u, v))))
            st.set_g(base, g.copy(FI=FI))
            return NONE
        if name == "add_edge":
            used("DiGraph.add_edge")
            u, v = ex.name_term(args[0]), ex.name_term(args[1])
            FI = z3.Store(g.FI, v, z3.Store(z3.Select(g.FI, v), u, True))
            st.set_g(base, g.copy(N=z3.Store(z3.Store(g.N, u, True), v, True), FI=FI))
            return NONE
        if name == "add_node":
            used("DiGraph.add_node")
            n = ex.name_term(args[0])
            new = g.copy(N=z3.Store(g.N, n, True))
            # a node that was absent has no attributes and (graph invariant) no edges; given attributes overwrite
            hasty = z3.Store(g.hasty, n, z3.And(g.node(n), z3.Select(g.hasty, n)))
            hasout = z3.Store(g.hasout, n, z3.And(g.node(n), z3.Select(g.hasout, n)))
            ty, out = g.ty, g.out
            if "type" in kwargs:
                ty = z3.Store(ty, n, ex.type_term(kwargs["type"]))
                hasty = z3.Store(hasty, n, True)
            if "output" in kwargs:
                out = z3.Store(out, n, ex.truthy(kwargs["output"]))
                hasout = z3.Store(hasout, n, True)
            st.set_g(base, new.copy(ty=ty, hasty=hasty, out=out, hasout=hasout))
            return NONE
        if name == "remove_node":
            used("DiGraph.remove_node")
            n = ex.name_term(args[0])
            ex.split_raise(st, z3.Not(g.node(n)), "NetworkXError")
            FI = define_fi(ex, st, lambda u, v: z3.And(g.edge(u, v), u != n, v != n))
            st.set_g(base, g.copy(N=z3.Store(g.N, n, False), FI=FI, hasty=z3.Store(g.hasty, n, False), hasout=z3.Store(g.hasout, n, False)))
            return NONE
        if name == "remove_nodes_from":
            used("DiGraph.remove_nodes_from")
            c = ex.as_coll(args[0])
            N = define_set(ex, st, lambda x: z3.And(g.node(x), z3.Not(c.mem(x))), "N")
            FI = define_fi(ex, st, lambda u, v: z3.And(g.edge(u, v), z3.Not(c.mem(u)), z3.Not(c.mem(v))))
            hasty = define_set(ex, st, lambda x: z3.And(z3.Select(g.hasty, x), z3.Not(c.mem(x))), "hasty")
            hasout = define_set(ex, st, lambda x: z3.And(z3.Select(g.hasout, x), z3.Not(c.mem(x))), "hasout")
            st.set_g(base, g.copy(N=N, FI=FI, hasty=hasty, hasout=hasout))
            return NONE
        if name == "copy":
            used("DiGraph.copy")
            return ObjRef(alloc(st, g.copy(), "graph"), "DiGraph")
        if name == "update":
            used("DiGraph.update")
            h = st.g(args[0])
            N = define_set(ex, st, lambda x: z3.Or(g.node(x), h.node(x)), "N")
            FI = define_fi(ex, st, lambda u, v: z3.Or(g.edge(u, v), h.edge(u, v)))
            x = ctx.fresh_name("ux")
            hasty = define_set(ex, st, lambda x: z3.Or(z3.Select(g.hasty, x), z3.And(h.node(x), z3.Select(h.hasty, x))), "hasty")
            hasout = define_set(ex, st, lambda x: z3.Or(z3.Select(g.hasout, x), z3.And(h.node(x), z3.Select(h.hasout, x))), "hasout")
            ty = ctx.fresh("ty", g.ty.sort())
            out = ctx.fresh("out", g.out.sort())
            st.pc.append(z3.ForAll([x], z3.Select(ty, x) == z3.If(z3.And(h.node(x), z3.Select(h.hasty, x)), z3.Select(h.ty, x), z3.Select(g.ty, x))))
            st.pc.append(z3.ForAll([x], z3.Select(out, x) == z3.If(z3.And(h.node(x), z3.Select(h.hasout, x)), z3.Select(h.out, x), z3.Select(g.out, x))))
            st.set_g(base, Graph(N, hasty, ty, hasout, out, FI))
            return NONE
        if name == "__contains__":
            return g.node(ex.name_term(args[0]))
        if name == "__len__":
            return ctx.card_of(lambda x: g.node(x), "nnodes")
        raise Unsupported(f"DiGraph.{name}")

    # ---------------------------------------------------------------- pysat IDPool / CNF (assumed contract, DESIGN 5.1)
    if isinstance(base, ObjRef) and base.kind == "IDPool":
        from pyvc.exec import LitV
        if name == "id":
            used("pysat.IDPool.id (injective, positive)")
            args, _ = ex.args_of(e, st)
            return LitV(obj_of(ex, args[0]), True)
        raise Unsupported("IDPool." + name)
    if isinstance(base, ObjRef) and base.kind == "CNF":
        if name == "append":
            used("pysat.CNF.append")
            args, _ = ex.args_of(e, st)
            rec = dict(st.heap[base.oid])
            rec["sat"] = z3.And(rec["sat"], clause_true(ex, args[0]))
            from pyvc.exec import LitColl
            cl = LitColl.of(args[0]) if isinstance(args[0], list) else args[0]
            if cl.lits is not None:
                men = rec["men"]
                for l in cl.lits:
                    men = z3.Store(men, l.obj, True)
            else:
                men = ex.ctx.fresh("mentioned", z3.ArraySort(ex.ctx.Obj, B))
                o_ = ex.ctx.fresh("mo", ex.ctx.Obj)
                ax = z3.ForAll([o_], z3.Select(men, o_) == z3.Or(z3.Select(rec["men"], o_), cl.pos(o_), cl.neg(o_)))
                ex.ctx.def_ids.add(ax.get_id())
                st.pc.append(ax)
            rec["men"] = men
            st.heap[base.oid] = rec
            return NONE
        raise Unsupported("CNF." + name)
    if isinstance(base, ObjRef) and base.kind == "Solver":
        from pyvc.exec import ModelV
        rec = st.heap[base.oid]
        if name == "solve":
            # True: mu stands for the model found (Sat holds of it); False: no assignment satisfies the clauses
            if ex.choice(st, rec["sat"]):
                return True
            return False
        if name == "get_model":
            return ModelV(rec["men"])
        if name == "add_clause":
            args, _ = ex.args_of(e, st)
            rec = dict(rec)
            rec["sat"] = z3.And(rec["sat"], clause_true(ex, args[0]))
            st.heap[base.oid] = rec
            return NONE
        raise Unsupported("Solver." + name)
    # ---------------------------------------------------------------- collections
    if isinstance(base, Coll):
        args, kwargs = ex.args_of(e, st)
        tgt = e.func.value
        if name in ("pop", "append", "add", "insert", "remove", "discard", "clear", "extend", "update", "sort", "reverse") and isinstance(tgt, ast.Name):
            # local collections are modelled as VALUES (a mutation rebinds the name): sound only if no other local
            # refers to the same object
            if any(v is base and k != tgt.id for k, v in st.env.items()):
                raise Unsupported(f"the collection bound to {tgt.id} has another name as well and is mutated in place")
        if name == "pop":
            x = ctx.fresh_name("popped")
            ex.split_raise(st, z3.Not(ex.truthy(base)), "IndexError" if base.is_list else "KeyError")
            if base.elems is not None and base.is_list and not args:
                rest = Coll.explicit(base.elems[:-1])
                ex.assign(tgt, rest, st)
                return NameV(base.elems[-1])
            st.pc.append(base.mem(x))
            if base.is_list and base.cnt is not None:
                arr = ctx.fresh("cnt", z3.ArraySort(ctx.Name, z3.IntSort()))
                y = ctx.fresh_name("py")
                st.pc.append(z3.ForAll([y], z3.Select(arr, y) == base.count(y) - z3.If(y == x, 1, 0)))
                new = Coll.from_cnt_array(arr)
            else:
                new = Coll(lambda y, b=base, x=x: z3.And(b.mem(y), y != x), is_list=base.is_list)
            if isinstance(tgt, ast.Name):
                ex.assign(tgt, new, st)  # local collections are values: rebinding models the in-place update
            return NameV(x)
        if name in ("append", "add"):
            if isinstance(args[0], Opaque) or (isinstance(args[0], StrLit) and not args[0].s.isidentifier()):
                ex.assign(tgt, ErrList(z3.BoolVal(True)), st)  # a list of messages: only its emptiness is modelled
                return NONE
            x = ex.name_term(args[0])
            if base.elems is not None:
                new = Coll.explicit(base.elems + [x], is_list=base.is_list)
            elif base.is_list:
                new = Coll(lambda y, b=base, x=x: z3.Or(b.mem(y), y == x), cnt=lambda y, b=base, x=x: b.count(y) + z3.If(y == x, 1, 0), is_list=True)
            else:
                new = Coll(lambda y, b=base, x=x: z3.Or(b.mem(y), y == x))
            if not isinstance(tgt, ast.Name):
                raise Unsupported("append to a non-local collection")
            ex.assign(tgt, new, st)
            return NONE
        if name == "insert":
            x = ex.name_term(args[1])
            if base.elems is not None and args[0] == 0:
                ex.assign(tgt, Coll.explicit([x] + base.elems), st)
                return NONE
            raise Unsupported("insert")
        if name == "copy":
            return base
        raise Unsupported(f"collection method {name}")
    if isinstance(base, list) and name == "append":
        raise Unsupported("append to heterogeneous list")
    if isinstance(base, ErrList):
        if name == "append":
            ex.assign(e.func.value, ErrList(z3.BoolVal(True)), st)
            return NONE
    # ---------------------------------------------------------------- blackbox registry / BlackBox objects
    if isinstance(base, ObjRef) and base.kind == "bbdict":
        rec = st.heap[base.oid]
        if name == "items":
            return BBItems(base.oid)
        if name in ("keys",):
            return Coll(lambda x, r=rec: z3.Select(r.dom, x))
        if name == "copy":
            used("dict.copy")
            return ObjRef(alloc(st, BBDict(rec.dom, rec.val), "bbdict"), "bbdict")
        if name == "pop":
            args, _ = ex.args_of(e, st)
            k = ex.name_term(args[0])
            ex.split_raise(st, z3.Not(z3.Select(rec.dom, k)), "KeyError")
            st.heap[base.oid] = BBDict(z3.Store(rec.dom, k, False), rec.val)
            return BBVal(z3.Select(rec.val, k))
        raise Unsupported("dict." + name)
    if isinstance(base, BBVal):
        if name == "inputs":
            return Coll(lambda x, b=base: ctx.bb_in(b.term, x))
        if name == "outputs":
            return Coll(lambda x, b=base: ctx.bb_out(b.term, x))
        if name == "io":
            return Coll(lambda x, b=base: z3.Or(ctx.bb_in(b.term, x), ctx.bb_out(b.term, x)))
        raise Unsupported("BlackBox." + name)
    if isinstance(base, DictV):
        if name == "items":
            if base.items is not None:
                return [TupleV([NameV(k), v]) for k, v in base.items]
            return DictItems(base)
        if name == "keys":
            return Coll(base.dom)
        if name == "values" and base.items is not None:
            return [v for _, v in base.items]
        if name == "values":
            def mem(y, d=base):
                x = ctx.fresh_name("dv")
                return z3.Exists([x], z3.And(d.dom(x), y == d.val(x).term))
            return Coll(mem, is_list=True)
        raise Unsupported("dict." + name)
    if isinstance(base, NodeAttrView) and name == "get":
        from pyvc.exec import MaybeType
        args, _ = ex.args_of(e, st)
        g = st.g(base.g)
        n = ex.name_term(base.n)
        if isinstance(args[0], StrLit) and args[0].s == "type" and len(args) == 1:
            return MaybeType(z3.Select(g.hasty, n), z3.Select(g.ty, n))
        raise Unsupported("attrs.get")
    # ---------------------------------------------------------------- strings
    if isinstance(base, NameV):
        args, _ = ex.args_of(e, st)
        if name == "split" and isinstance(args[0], StrLit) and args[0].s == ".":
            return SplitV(base.term)
        if name == "replace" and [a.s for a in args] == [".", "_"]:
            return NameV(ex.under(base.term))
        raise Unsupported("str." + name)
    if isinstance(base, StrLit) and name == "join":
        return Opaque("joined string")
    raise Unsupported(f"method {name} of {base!r} (statement #{e.lineno})")


class DictItems:
    def __init__(self, d):
        self.d = d


def mu_of(ex):
    """the arbitrary (never constrained) assignment of pool objects that clause semantics is stated for"""
    if not hasattr(ex, "_mu"):
        ex._mu = ex.ctx.fresh("mu", z3.ArraySort(ex.ctx.Obj, B))
    return ex._mu


def obj_of(ex, v):
    O = ex.ctx.Obj
    from pyvc.engine import TupleV
    if isinstance(v, (NameV, StrLit)):
        return O.nm(ex.name_term(v))
    if isinstance(v, ObjV):
        return v.term
    if isinstance(v, TupleV) and v.items and isinstance(v.items[0], StrLit):
        tag = v.items[0].s
        if tag == "xor" and len(v.items) == 3:
            return O.xorpair(obj_of(ex, v.items[1]), obj_of(ex, v.items[2]))
        if tag == "xor_inv" and len(v.items) == 2:
            return O.xorinv(ex.name_term(v.items[1]))
    raise Unsupported(f"object registered in the IDPool: {v!r}")


class ObjV:
    def __init__(self, term):
        self.term = term


def clause_true(ex, clause):
    """the clause holds under mu"""
    from pyvc.exec import LitColl, LitV
    mu = mu_of(ex)
    if isinstance(clause, list):
        clause = LitColl.of(clause)
    if not isinstance(clause, LitColl):
        raise Unsupported(f"clause {clause!r}")
    if clause.lits is not None:
        return z3.Or([z3.Select(mu, l.obj) if l.pos else z3.Not(z3.Select(mu, l.obj)) for l in clause.lits]) if clause.lits else z3.BoolVal(False)
    o = ex.ctx.fresh("o", ex.ctx.Obj)
    return z3.Or(z3.Exists([o], z3.And(clause.pos(o), z3.Select(mu, o))), z3.Exists([o], z3.And(clause.neg(o), z3.Not(z3.Select(mu, o)))))


def instantiate(ex, cls, e, st):
    """a pysat solver class called with bootstrap_with=<CNF>"""
    args, kwargs = ex.args_of(e, st)
    if cls.name == "Solver":
        used("pysat.Solver (solve sound+complete for the added clauses; get_model indexes every occurring variable)")
        f = kwargs.get("bootstrap_with")
        rec = st.heap[f.oid]
        return ObjRef(alloc(st, {"kind": "Solver", "sat": rec["sat"], "men": rec["men"]}, "solver"), "Solver")
    raise Unsupported("class " + cls.name)


def new_circuit(ex, st, e):
    """cg.Circuit(name=None, graph=None, blackboxes=None): stores the given graph/dict objects (no copy) unless falsy."""
    ctx = ex.ctx
    args, kwargs = ex.args_of(e, st)
    names = ["name", "graph", "blackboxes"]
    for k, a in zip(names, args):
        kwargs[k] = a
    name = kwargs.get("name", NONE)
    if isinstance(name, type(NONE)) or name is NONE:
        name = StrLit("circuit")
    graph = kwargs.get("graph", NONE)
    if isinstance(graph, ObjRef):
        g = st.g(graph)
        x = ctx.fresh_name("gx")
        nonempty = z3.Exists([x], g.node(x))
        # `if graph:` -- an empty DiGraph is falsy and is replaced by a new one: indistinguishable for an empty graph
        # except for identity; we keep the given object when it is provably non-empty, else allocate (sound for frames)
        if ex.feasible(st, z3.Not(nonempty)):
            goid = alloc(st, g.copy(), "graph")
        else:
            goid = st.goid(graph)
    else:
        goid = alloc(st, Graph.empty(ctx), "graph")
    bbs = kwargs.get("blackboxes", NONE)
    if isinstance(bbs, ObjRef):
        boid = bbs.oid
    else:
        boid = alloc(st, BBDict.empty(ctx), "bbdict")
    return ObjRef(alloc(st, CircuitRec(goid, boid, name), "circuit"), "Circuit")


def relabel_graph(ex, st, G, mp, e, inplace=False):
    """the graph obtained from G by renaming x to m(x) (m(x) = mapping[x] when x is a key, else x): nodes m(x) for x in
    G, the attributes of x, the edges mapped.  Assumed contract of networkx.relabel_nodes; it holds when m is injective
    on the nodes of G (otherwise networkx merges nodes) and, for copy=False, when the key and value sets of the
    mapping are disjoint and no value is an existing node (then the in-place renaming visits each key once and never
    merges).  These requirements are emitted as obligations at the call site."""
    ctx = ex.ctx
    if not isinstance(mp, DictV) or mp.items is not None:
        raise Unsupported("relabel_nodes with an explicit dict")
    m = lambda x: z3.If(mp.dom(x), mp.val(x).term, x)
    x, y, u, v = ctx.fresh_name("rx"), ctx.fresh_name("ry"), ctx.fresh_name("ru"), ctx.fresh_name("rv")
    inj = z3.ForAll([x, y], z3.Implies(z3.And(G.node(x), G.node(y), m(x) == m(y)), x == y))
    ex.oblige(st, "relabel_nodes-mapping-injective-on-nodes", inj, "pre-of-callee", getattr(e, "lineno", None))
    st.pc.append(inj)
    if inplace:
        disj = z3.ForAll([x, y], z3.Implies(z3.And(mp.dom(x), mp.dom(y)), mp.val(x).term != y))
        fresh = z3.ForAll([x], z3.Implies(z3.And(mp.dom(x), G.node(x)), z3.Not(G.node(mp.val(x).term))))
        ex.oblige(st, "relabel_nodes(copy=False)-keys-and-values-disjoint", disj, "pre-of-callee", getattr(e, "lineno", None))
        ex.oblige(st, "relabel_nodes(copy=False)-new-names-are-not-nodes", fresh, "pre-of-callee", getattr(e, "lineno", None))
        st.pc.append(disj)
        st.pc.append(fresh)
    N = define_set(ex, st, lambda t: z3.Exists([x], z3.And(G.node(x), t == m(x))), "rl_N")
    FI = define_fi(ex, st, lambda a, b: z3.Exists([u, v], z3.And(G.edge(u, v), a == m(u), b == m(v))), "rl_FI")
    pick = z3.Function(f"relabel_source!{next(ctx._n)}", ctx.Name, ctx.Name)
    st.pc.append(z3.ForAll([y], z3.Implies(z3.Select(N, y), z3.And(G.node(pick(y)), m(pick(y)) == y))))
    hasty = define_set(ex, st, lambda t: z3.And(z3.Select(N, t), z3.Select(G.hasty, pick(t))), "rl_hasty")
    hasout = define_set(ex, st, lambda t: z3.And(z3.Select(N, t), z3.Select(G.hasout, pick(t))), "rl_hasout")
    ty = ctx.fresh("rl_ty", G.ty.sort())
    out = ctx.fresh("rl_out", G.out.sort())
    for ax in (z3.ForAll([y], z3.Select(ty, y) == z3.Select(G.ty, pick(y))), z3.ForAll([y], z3.Select(out, y) == z3.Select(G.out, pick(y)))):
        ctx.def_ids.add(ax.get_id())
        st.pc.append(ax)
    return Graph(N, hasty, ty, hasout, out, FI)


def relabel_nodes(ex, st, e):
    """nx.relabel_nodes(G, mapping[, copy]): copy=True returns a NEW graph, copy=False renames in place (see relabel_graph)"""
    args, kwargs = ex.args_of(e, st)
    copy = kwargs.get("copy", True)
    if not isinstance(copy, bool):
        raise Unsupported("relabel_nodes with a symbolic copy flag")
    used("networkx.relabel_nodes(copy=%s)" % copy)
    G = st.g(args[0])
    g2 = relabel_graph(ex, st, G, args[1], e, inplace=not copy)
    if copy:
        return ObjRef(alloc(st, g2, "graph"), "DiGraph")
    st.set_g(args[0], g2)
    return args[0]
