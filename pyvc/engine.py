"""pyvc engine: symbolic execution of real Python function ASTs (re-read from /repo on
every run) against contracts, generating named verification conditions for z3.

See DESIGN.md section 3.  Main concepts:
  Ctx      - sorts (Name uninterpreted, T enum of node types), literal/name-template
             constants with *only* the string facts that are justified, obligations.
  values   - NameV, StrLit, TypeV, SetV, ListV, DictV, TupleV, ObjRef, NoneV, FuncV, z3 Bool/Int.
  State    - env (locals), heap (functional records of z3 arrays), path condition.
  Exec     - statement/expression interpreter; calls go to *summaries* (contracts in
             executable form); a function under verification is compared with its own
             summary (refinement VC) and with its property contract.
"""
import ast
import hashlib
import itertools
import os
import time

import z3

REPO = os.environ.get("VERIF_REPO", "/repo")

SUPPORTED = ["buf", "and", "or", "xor", "not", "nand", "nor", "xnor", "0", "1", "x", "input", "bb_input", "bb_output"]


class Unsupported(Exception):
    """construct outside the modelled subset -> the function is 'outside-subset' (undecided)."""


# ----------------------------------------------------------------------------- values
class NameV:
    def __init__(self, term):
        self.term = term

    def __repr__(self):
        return f"NameV({self.term})"


class StrLit:
    def __init__(self, s):
        self.s = s

    def __repr__(self):
        return f"StrLit({self.s!r})"


class TypeV:
    def __init__(self, term):
        self.term = term


class NoneV:
    def __repr__(self):
        return "NoneV"


NONE = NoneV()


class TupleV:
    def __init__(self, items):
        self.items = list(items)


class SetV:
    """finite collection of values of one kind, given by a membership predicate (python callable term->Bool).
    kind: 'name' | 'pair' (edges, mem takes two terms) ; elems: explicit python list of terms when known;
    is_list: ordered in Python (order is unknown to us unless elems is given); card: z3 Int term or None."""

    def __init__(self, mem, kind="name", elems=None, is_list=False, card=None, nonempty=None, dup_free=True):
        self.mem = mem
        self.kind = kind
        self.elems = elems
        self.is_list = is_list
        self.card = card
        self.dup_free = dup_free

    @staticmethod
    def of(terms, is_list=True):
        terms = list(terms)
        return SetV(lambda x, ts=terms: z3.Or([x == t for t in ts]) if ts else z3.BoolVal(False),
                    elems=terms, is_list=is_list, dup_free=False)


class DictV:
    """dict with Name keys: dom predicate, val: term->value constructor (python callable)."""

    def __init__(self, dom, val, vkind="name", items=None):
        self.dom = dom
        self.val = val
        self.vkind = vkind
        self.items = items  # explicit python list of (key term, value) when known


class ObjRef:
    def __init__(self, oid, kind):
        self.oid = oid
        self.kind = kind

    def __repr__(self):
        return f"ObjRef({self.oid},{self.kind})"


class GraphNodesView:  # value of `g.nodes`
    def __init__(self, g):
        self.g = g


class NodeAttrView:  # value of `g.nodes[n]`
    def __init__(self, g, n):
        self.g = g
        self.n = n


class FuncV:
    def __init__(self, node, env, qual):
        self.node = node
        self.env = env
        self.qual = qual


class BoundMethod:
    def __init__(self, obj, name):
        self.obj = obj
        self.name = name


class ModuleV:
    def __init__(self, name):
        self.name = name


class Opaque:
    """a value we know nothing about (exception messages etc.)"""

    def __init__(self, what=""):
        self.what = what


# ----------------------------------------------------------------------------- context
_TSORT = None
_FSORT = {}
_OBJ = {}


class Ctx:
    def __init__(self, finite=None):
        self.finite = finite
        self._n = itertools.count()
        if finite:
            if finite not in _FSORT:
                _FSORT[finite] = z3.EnumSort(f"NameF{finite}", [f"nm{finite}_{i}" for i in range(finite)])
            self.Name, self.name_consts = _FSORT[finite]
        else:
            self.Name = z3.DeclareSort("Name")
        global _TSORT
        if _TSORT is None:
            tnames = ["t_" + t.replace("0", "zero").replace("1", "one") for t in SUPPORTED] + ["t_unsup", "t_unsup2"]
            _TSORT = z3.EnumSort("NodeType", tnames)
        self.T, tvals = _TSORT
        self.tval = dict(zip(SUPPORTED + ["<unsup>", "<unsup2>"], tvals))
        self.BB = z3.DeclareSort("BlackBoxObj")
        # objects registered in a pysat IDPool: node names, and the tuple keys of the parity auxiliaries
        global _OBJ
        key = str(self.Name)
        if key not in _OBJ:
            O = z3.Datatype("PoolObj_" + key)
            O.declare("nm", ("nm_of", self.Name))
            O.declare("xorpair", ("xp_a", O), ("xp_b", O))
            O.declare("xorinv", ("xi_n", self.Name))
            _OBJ[key] = O.create()
        self.Obj = _OBJ[key]
        self.lits = {}
        self.templates = {}
        self.template_inverse = {}
        self.axioms = []
        self.obligations = []
        self.card_fns = {}
        self.local_sink = None
        self.def_ids = set()  # ids of definitional axioms (fresh constant := comprehension)
        self.strfacts = []
        self.exist_consts = []  # constants of a contract that are existentially quantified in refinement goals
        self.scope_vars = []  # enclosing universally quantified loop variables (for Skolem cards)
        # blackbox pin sets
        self.bb_in = z3.Function("bb_inputs", self.BB, self.Name, z3.BoolSort())
        self.bb_out = z3.Function("bb_outputs", self.BB, self.Name, z3.BoolSort())

    # -- fresh symbols
    def fresh(self, name, sort):
        return z3.Const(f"{name}!{next(self._n)}", sort)

    def fresh_name(self, name="n"):
        return self.fresh(name, self.Name)

    def arr_nb(self, name):
        return self.fresh(name, z3.ArraySort(self.Name, z3.BoolSort()))

    # -- literals
    def name_lit(self, s):
        if s not in self.lits:
            c = z3.Const("lit_" + (s if s.isidentifier() else hashlib.md5(s.encode()).hexdigest()[:8]), self.Name)
            for other, oc in self.lits.items():
                self.axioms.append(c != oc)  # different literal strings are different strings
            # literal vs templates
            self.lits[s] = c
            for key, f in list(self.templates.items()):
                self._lit_vs_template(s, c, key, f)
        return self.lits[s]

    def type_lit(self, s):
        return self.tval.get(s, self.tval["<unsup>"])

    # -- name templates (f-strings):  parts = tuple of literal pieces, len = holes+1
    def template(self, parts):
        parts = tuple(parts)
        if parts not in self.templates:
            holes = len(parts) - 1
            f = z3.Function("fmt_" + hashlib.md5(repr(parts).encode()).hexdigest()[:6] + "_" +
                            "".join(ch if ch.isalnum() else "_" for ch in "X".join(parts))[:24],
                            *([self.Name] * holes + [self.Name]))
            if holes == 1:
                # P + x + S is injective in x  (strfact: checked by cvc5 in the strfact obligations)
                x, y = self.fresh_name("ix"), self.fresh_name("iy")
                self.axioms.append(z3.ForAll([x, y], z3.Implies(f(x) == f(y), x == y)))
                self.strfacts.append(("inj", parts))
                inv1 = z3.Function("inv_" + f.name(), self.Name, self.Name)
                self.axioms.append(z3.ForAll([x], inv1(f(x)) == x))
                self.template_inverse[parts] = inv1
            if holes >= 2:
                # a + SEP + x == a + SEP + y  =>  x == y   (equal leading holes: the rest is determined), and symmetrically
                xs = [self.fresh_name("hx") for _ in range(holes)]
                y = self.fresh_name("hy")
                self.axioms.append(z3.ForAll(xs + [y], z3.Implies(f(*xs) == f(*(xs[:-1] + [y])), xs[-1] == y)))
                self.axioms.append(z3.ForAll(xs + [y], z3.Implies(f(*xs) == f(*([y] + xs[1:])), xs[0] == y)))
                self.strfacts.append(("inj-last-given-rest", parts))
                inv = z3.Function("inv_" + f.name(), *([self.Name] * holes + [self.Name]))
                self.axioms.append(z3.ForAll(xs, inv(*(xs[:-1] + [f(*xs)])) == xs[-1]))
                self.template_inverse[parts] = inv
            for key, g in self.templates.items():
                self._template_vs_template(parts, f, key, g)
                self._assoc(parts, f, key, g)
                self._assoc(key, g, parts, f)
                self._same_head(parts, f, key, g)
            self.templates[parts] = f
            for s, c in list(self.lits.items()):
                self._lit_vs_template(s, c, parts, f)
        return self.templates[parts]

    @staticmethod
    def _incompatible_prefix(p, q):
        """two strings starting with p resp. q can never be equal"""
        m = min(len(p), len(q))
        return p[:m] != q[:m]

    @staticmethod
    def _incompatible_suffix(p, q):
        m = min(len(p), len(q))
        return m > 0 and p[len(p) - m:] != q[len(q) - m:]

    def _template_vs_template(self, a, f, b, g):
        if self._incompatible_prefix(a[0], b[0]) or self._incompatible_suffix(a[-1], b[-1]):
            xs = [self.fresh_name("tx") for _ in range(len(a) - 1)]
            ys = [self.fresh_name("ty") for _ in range(len(b) - 1)]
            self.axioms.append(z3.ForAll(xs + ys, f(*xs) != g(*ys)))
            self.strfacts.append(("disj", a, b))

    def _same_head(self, a, f, b, g):
        """a0 == b0 and both start with the same hole value: the texts after it start with different characters, so the
        results differ:  f"{h}.{x}" != f"{h}_{y}" """
        if len(a) >= 2 and len(b) >= 2 and a[0] == b[0] and a[1] and b[1] and a[1][0] != b[1][0]:
            h = self.fresh_name("sh")
            xs = [self.fresh_name("sx") for _ in range(len(a) - 2)]
            ys = [self.fresh_name("sy") for _ in range(len(b) - 2)]
            self.axioms.append(z3.ForAll([h] + xs + ys, f(*([h] + xs)) != g(*([h] + ys))))
            self.strfacts.append(("same-head", a, b))

    def _assoc(self, a, f, b, g):
        """a ends with a hole, b starts with one:  A(xs.., B(y, ys..)) == B(A(xs.., y), ys..)  (both are the text
        a0 x1 .. a_{k-1} y b1 y2 ..: concatenation is associative)"""
        if a[-1] == "" and b[0] == "" and not os.environ.get("PYVC_NO_ASSOC"):
            xs = [self.fresh_name("ax") for _ in range(len(a) - 1)]
            ys = [self.fresh_name("ay") for _ in range(len(b) - 1)]
            lhs = f(*(xs[:-1] + [g(*([xs[-1]] + ys[1:]))]))
            rhs = g(*([f(*xs)] + ys[1:]))
            self.axioms.append(z3.ForAll(xs + ys[1:], lhs == rhs, patterns=[lhs, rhs]))  # rewrite in either direction
            self.strfacts.append(("assoc", a, b))

    def _lit_vs_template(self, s, c, parts, f):
        # s can be produced by the template only if it starts with parts[0] and ends with parts[-1] (and is long enough)
        minlen = sum(len(p) for p in parts)
        if not (s.startswith(parts[0]) and s.endswith(parts[-1]) and len(s) >= minlen):
            xs = [self.fresh_name("tx") for _ in range(len(parts) - 1)]
            self.axioms.append(z3.ForAll(xs, f(*xs) != c))
            self.strfacts.append(("lit", s, parts))
        elif len(parts) == 2:
            # the literal IS an instance of the one-hole template: "x_y_ha_s" == f"x_y_ha_{'s'}"
            mid = s[len(parts[0]):len(s) - len(parts[1])]
            self.axioms.append(f(self.name_lit(mid)) == c)
            self.strfacts.append(("lit-instance", s, parts, mid))

    # -- cardinalities: a Skolem function of the enclosing scope variables with sound axioms
    def len_of_multiset(self, mem, cnt, tag="len"):
        """len() of a list seen as a multiset: >= 0, == 0 iff empty, <= 1 iff at most one element counted with
        multiplicity.  (A Skolem function of the enclosing scope variables, like card_of.)"""
        scope = list(self.scope_vars)
        k = next(self._n)
        if scope:
            fn = z3.Function(f"{tag}!{k}", *([v.sort() for v in scope] + [z3.IntSort()]))
            c = fn(*scope)
        else:
            c = z3.Const(f"{tag}!{k}", z3.IntSort())
        x, y = self.fresh_name("cx"), self.fresh_name("cy")
        body = z3.And(c >= 0,
                      (c == 0) == z3.Not(z3.Exists([x], mem(x))),
                      (c <= 1) == z3.And(z3.ForAll([x, y], z3.Implies(z3.And(mem(x), mem(y)), x == y)), z3.ForAll([x], cnt(x) <= 1)))
        self._emit(z3.ForAll(scope, body) if scope else body, bool(scope))
        return c

    def _emit(self, ax, scoped):
        """cardinality axioms mention symbols of one path only: they go to that path's condition (keeps every VC small);
        axioms quantified over enclosing loop variables must be global (they are used outside the binder's path)"""
        if self.local_sink is not None and not scoped:
            self.local_sink.append(ax)
        else:
            self.axioms.append(ax)

    def card_of(self, mem, tag="card"):
        scope = list(self.scope_vars)
        k = next(self._n)
        if scope:
            fn = z3.Function(f"{tag}!{k}", *([v.sort() for v in scope] + [z3.IntSort()]))
            c = fn(*scope)
        else:
            c = z3.Const(f"{tag}!{k}", z3.IntSort())
        x, y, w = self.fresh_name("cx"), self.fresh_name("cy"), self.fresh_name("cw")
        body = z3.And(c >= 0,
                      (c == 0) == z3.Not(z3.Exists([x], mem(x))),
                      (c <= 1) == z3.ForAll([x, y], z3.Implies(z3.And(mem(x), mem(y)), x == y)),
                      (c <= 2) == z3.ForAll([x, y, w], z3.Implies(z3.And(mem(x), mem(y), mem(w)), z3.Or(x == y, x == w, y == w))))
        self._emit(z3.ForAll(scope, body) if scope else body, bool(scope))
        return c

    # -- obligations
    def oblige(self, oid, hyps, goal, kind="assert", line=None):
        base, k = oid, 1
        seen = {o["id"] for o in self.obligations}
        while oid in seen:  # ids are unique
            k += 1
            oid = f"{base}~{k}"
        self.obligations.append({"id": oid, "kind": kind, "hyps": list(hyps), "goal": goal, "line": line, "inputs": getattr(self, "_inputs", None)})


# ----------------------------------------------------------------------------- heap records
class Graph:
    FIELDS = ("N", "hasty", "ty", "hasout", "out", "FI")

    def __init__(self, N, hasty, ty, hasout, out, FI):
        self.N, self.hasty, self.ty, self.hasout, self.out, self.FI = N, hasty, ty, hasout, out, FI

    def copy(self, **kw):
        d = {f: getattr(self, f) for f in self.FIELDS}
        d.update(kw)
        return Graph(**d)

    def edge(self, u, v):
        return z3.Select(z3.Select(self.FI, v), u)

    def node(self, n):
        return z3.Select(self.N, n)

    @staticmethod
    def fresh(ctx, tag):
        NB = z3.ArraySort(ctx.Name, z3.BoolSort())
        return Graph(ctx.fresh(tag + "_N", NB), ctx.fresh(tag + "_hasty", NB), ctx.fresh(tag + "_ty", z3.ArraySort(ctx.Name, ctx.T)),
                     ctx.fresh(tag + "_hasout", NB), ctx.fresh(tag + "_out", NB), ctx.fresh(tag + "_FI", z3.ArraySort(ctx.Name, NB)))

    @staticmethod
    def empty(ctx):
        NB = z3.ArraySort(ctx.Name, z3.BoolSort())
        f = z3.K(ctx.Name, z3.BoolVal(False))
        return Graph(f, f, z3.K(ctx.Name, ctx.tval["buf"]), f, f, z3.K(ctx.Name, f))

    def wf(self, ctx):
        """representation invariant of nx.DiGraph: edges join nodes (assumed of every graph that reaches us)."""
        x, y = ctx.fresh_name("wx"), ctx.fresh_name("wy")
        return z3.And(z3.ForAll([x, y], z3.Implies(self.edge(x, y), z3.And(self.node(x), self.node(y)))),
                      # attribute dicts exist for nodes only
                      z3.ForAll([x], z3.Implies(z3.Or(z3.Select(self.hasty, x), z3.Select(self.hasout, x)), self.node(x))))

    def same(self, other, ctx, fields=None):
        x, y = ctx.fresh_name("sx"), ctx.fresh_name("sy")
        cl = []
        for f in fields or self.FIELDS:
            if f == "FI":
                cl.append(z3.ForAll([x, y], self.edge(x, y) == other.edge(x, y)))
            elif f in ("ty",):
                cl.append(z3.ForAll([x], z3.Implies(z3.Select(self.hasty, x), z3.Select(self.ty, x) == z3.Select(other.ty, x))))
            elif f == "out":
                cl.append(z3.ForAll([x], z3.Implies(z3.Select(self.hasout, x), z3.Select(self.out, x) == z3.Select(other.out, x))))
            else:
                cl.append(z3.ForAll([x], z3.Select(getattr(self, f), x) == z3.Select(getattr(other, f), x)))
        return z3.And(cl)


class BBDict:
    def __init__(self, dom, val):
        self.dom, self.val = dom, val  # Array(Name,Bool), Array(Name,BB)

    @staticmethod
    def fresh(ctx, tag):
        return BBDict(ctx.fresh(tag + "_bbdom", z3.ArraySort(ctx.Name, z3.BoolSort())), ctx.fresh(tag + "_bbval", z3.ArraySort(ctx.Name, ctx.BB)))

    @staticmethod
    def empty(ctx):
        return BBDict(z3.K(ctx.Name, z3.BoolVal(False)), ctx.fresh("bbval0", z3.ArraySort(ctx.Name, ctx.BB)))

    def same(self, other, ctx):
        x = ctx.fresh_name("bx")
        return z3.ForAll([x], z3.And(z3.Select(self.dom, x) == z3.Select(other.dom, x),
                                     z3.Implies(z3.Select(self.dom, x), z3.Select(self.val, x) == z3.Select(other.val, x))))


class CircuitRec:
    def __init__(self, graph, bbs, name):
        self.graph, self.bbs, self.name = graph, bbs, name  # oids + name term


class State:
    def __init__(self, env, heap, pc, trace=()):
        self.env, self.heap, self.pc, self.trace = env, heap, pc, trace

    def fork(self, *conds, mark=None):
        return State(dict(self.env), dict(self.heap), self.pc + [c for c in conds if c is not None],
                     self.trace + ((mark,) if mark is not None else ()))

    def pathid(self):
        """stable identifier of the control path that led here (source lines and branch directions), so that
        obligation names do not depend on how many infeasible paths the pruning happened to remove"""
        return hashlib.md5(repr(self.trace).encode()).hexdigest()[:6]

    def g(self, ref):  # graph record of a Circuit or DiGraph reference
        rec = self.heap[ref.oid]
        if isinstance(rec, CircuitRec):
            return self.heap[rec.graph]
        return rec

    def goid(self, ref):
        rec = self.heap[ref.oid]
        return rec.graph if isinstance(rec, CircuitRec) else ref.oid

    def bb(self, ref):
        return self.heap[self.heap[ref.oid].bbs]

    def set_g(self, ref, g):
        self.heap[self.goid(ref)] = g

    def set_bb(self, ref, b):
        self.heap[self.heap[ref.oid].bbs] = b


class Out:
    def __init__(self, kind, st, value=None, exc=None):
        self.kind, self.st, self.value, self.exc = kind, st, value, exc  # kind: normal|return|raise|break|continue


def alloc(st, rec, tag="o"):
    oid = f"{tag}#{len(st.heap)}_{id(rec) % 9973}"
    st.heap[oid] = rec
    return oid


# ----------------------------------------------------------------------------- source access
_SRC_CACHE = {}


def module_ast(relpath):
    path = os.path.join(REPO, relpath)
    if path not in _SRC_CACHE:
        src = open(path).read()
        _SRC_CACHE[path] = (src, ast.parse(src))
    return _SRC_CACHE[path]


def find_function(relpath, qual):
    """qual: 'Circuit.connect' | 'miter' | 'cnf.xor_clauses' -> (FunctionDef node, source segment, sha256)"""
    src, tree = module_ast(relpath)
    node = tree
    for part in qual.split("."):
        found = None
        for ch in ast.walk(node) if isinstance(node, ast.FunctionDef) else node.body:
            if isinstance(ch, (ast.FunctionDef, ast.ClassDef)) and ch.name == part and ch is not node:
                found = ch
                break
        if found is None:
            raise KeyError(f"{relpath}::{qual}")
        node = found
    seg = ast.get_source_segment(src, node)
    SHA_SEEN[f"{relpath}::{qual}"] = hashlib.sha256(seg.encode()).hexdigest()[:16]
    if isinstance(node, ast.FunctionDef) and node.decorator_list:
        # a decorator can change what a call does (caching, wrapping): the body alone is then not the function
        SHA_SEEN[f"{relpath}::{qual}"] += "+decorated"
        raise Unsupported(f"{qual} is decorated ({', '.join(ast.unparse(d) for d in node.decorator_list)}): outside the verified subset")
    if isinstance(node, ast.FunctionDef):
        node = canonical_locals(node, f"{relpath}::{qual}")
        node = statement_numbering(node)
    mut = os.environ.get("PYVC_MUTATE")
    if mut:
        mq, spec_ = mut.split("::", 1)
        if mq == qual:
            import copy as _copy
            node = mutate(_copy.deepcopy(node), spec_)
    return node, seg, hashlib.sha256(seg.encode()).hexdigest()[:16]


# ----------------------------------------------------------------------------- names of locals (sidecar robustness)
LOCALS_SEEN = {}
SHA_SEEN = {}
_LOCALS_TABLE = None


def binding_order(fn):
    """parameters, then every other local in the order of its first binding occurrence in the source
    (comprehension variables and nested functions' own names are not locals of fn)"""
    names = [a.arg for a in fn.args.args + fn.args.kwonlyargs]
    for extra in (fn.args.vararg, fn.args.kwarg):
        if extra is not None:
            names.append(extra.arg)
    found = []

    def walk(n, top=False):
        if isinstance(n, (ast.ListComp, ast.SetComp, ast.DictComp, ast.GeneratorExp, ast.Lambda)):
            return
        if isinstance(n, (ast.FunctionDef, ast.ClassDef)) and not top:
            found.append((n.lineno, n.col_offset, n.name))
            return
        if isinstance(n, ast.Name) and isinstance(n.ctx, ast.Store):
            found.append((n.lineno, n.col_offset, n.id))
        for ch in ast.iter_child_nodes(n):
            walk(ch)
    walk(fn, top=True)
    for _, _, nm in sorted(found):
        if nm not in names:
            names.append(nm)
    return names


def canonical_locals(fn, key):
    """Sidecar invariants name locals as they were spelled when the lock file was made.  When the function's locals
    are the same in number but spelled differently (a harmless renaming), the AST that is verified is alpha-renamed
    back to the recorded spelling: position in binding order identifies a local.  Renaming every occurrence of an
    identifier to a name that occurs nowhere in the function preserves the meaning; when that cannot be guaranteed
    the function is left as it is (the sidecar then reports `contract no longer applicable`)."""
    global _LOCALS_TABLE
    cur = binding_order(fn)
    LOCALS_SEEN[key] = cur
    if os.environ.get("PYVC_RELOCK") or os.environ.get("PYVC_NO_CANON"):
        return fn
    if _LOCALS_TABLE is None:
        path = os.path.join(os.path.dirname(os.path.dirname(os.path.abspath(__file__))), "obligations.lock.json")
        try:
            import json
            _LOCALS_TABLE = json.load(open(path)).get("__locals__", {})
        except Exception:
            _LOCALS_TABLE = {}
    want = _LOCALS_TABLE.get(key)
    if not want or want == cur or len(want) != len(cur):
        return fn
    ren = {c: w for c, w in zip(cur, want) if c != w}
    used = {n.id for n in ast.walk(fn) if isinstance(n, ast.Name)} | {a.arg for a in ast.walk(fn) if isinstance(a, ast.arg)}
    if any(w in used and w not in ren for w in ren.values()) or len(set(want)) != len(want):
        return fn  # the recorded spelling is taken by something else: renaming could capture
    import copy as _copy
    fn2 = _copy.deepcopy(fn)
    for n in ast.walk(fn2):
        if isinstance(n, ast.Name) and n.id in ren:
            n.id = ren[n.id]
        elif isinstance(n, ast.arg) and n.arg in ren:
            n.arg = ren[n.arg]
    return fn2


def statement_numbering(fn):
    """Positions inside the verified AST are statement ordinals, not source lines: obligation names, path hashes,
    loop ordinals and cut points then do not change when comments or blank lines are added, lines are re-wrapped or
    the function moves in its file.  `lineno` of every node = ordinal of the statement it belongs to; `end_lineno`
    of a statement = ordinal of the last statement nested in it.  The source lines are kept in fn.abs_lines."""
    import copy as _copy
    fn2 = _copy.deepcopy(fn)
    fn2.abs_lines = [fn.lineno, fn.end_lineno]
    counter = [0]

    def number(stmt):
        counter[0] += 1
        k = counter[0]
        last = k
        for field, value in ast.iter_fields(stmt):
            if isinstance(value, list) and value and isinstance(value[0], (ast.stmt, ast.ExceptHandler)):
                for ch in value:
                    if isinstance(ch, ast.ExceptHandler):
                        ch.lineno = counter[0] + 1
                        for g in ch.body:
                            last = number(g)
                        ch.end_lineno = last
                        if ch.type is not None:
                            for sub in ast.walk(ch.type):
                                sub.lineno = sub.end_lineno = ch.lineno
                    else:
                        last = number(ch)
            elif isinstance(value, ast.AST):
                for sub in ast.walk(value):
                    if hasattr(sub, "lineno"):
                        sub.lineno = k
                        sub.end_lineno = k
            elif isinstance(value, list):
                for v in value:
                    if isinstance(v, ast.AST):
                        for sub in ast.walk(v):
                            if hasattr(sub, "lineno"):
                                sub.lineno = k
                                sub.end_lineno = k
        stmt.lineno = k
        stmt.end_lineno = last
        return last
    fn2.lineno = 0
    last = 0
    for st_ in fn2.body:
        last = number(st_)
    fn2.end_lineno = last
    return fn2


def abs_lines(fn):
    return getattr(fn, "abs_lines", [fn.lineno, fn.end_lineno])


def mutation_sites(node):
    """(kind, index) of every in-memory mutation applicable to a function AST (vacuity guard, DESIGN 7 (iv))"""
    sites = []
    ifs = [n for n in ast.walk(node) if isinstance(n, (ast.If, ast.While))]
    sites += [("negate", i) for i in range(len(ifs))]
    stmts = [n for n in ast.walk(node) if isinstance(n, (ast.Expr, ast.Assign, ast.AugAssign, ast.Raise)) and not (isinstance(n, ast.Expr) and isinstance(n.value, ast.Constant))]
    sites += [("drop", i) for i in range(len(stmts))]
    consts = [n for n in ast.walk(node) if isinstance(n, ast.Constant) and isinstance(n.value, str) and n.value in SUPPORTED]
    sites += [("const", i) for i in range(len(consts))]
    cmps = [n for n in ast.walk(node) if isinstance(n, ast.Compare) and isinstance(n.ops[0], (ast.Gt, ast.Lt, ast.GtE, ast.LtE))]
    sites += [("cmp", i) for i in range(len(cmps))]
    return sites


def mutate(node, spec_):
    kind, idx = spec_.split(":")[:2]
    idx = int(idx)
    if kind == "negate":
        tgt = [n for n in ast.walk(node) if isinstance(n, (ast.If, ast.While))][idx]
        tgt.test = ast.copy_location(ast.UnaryOp(op=ast.Not(), operand=tgt.test), tgt.test)
    elif kind == "drop":
        stmts = [n for n in ast.walk(node) if isinstance(n, (ast.Expr, ast.Assign, ast.AugAssign, ast.Raise)) and not (isinstance(n, ast.Expr) and isinstance(n.value, ast.Constant))]
        victim = stmts[idx]
        for parent in ast.walk(node):
            for field in ("body", "orelse", "finalbody"):
                lst = getattr(parent, field, None)
                if isinstance(lst, list) and victim in lst:
                    lst[lst.index(victim)] = ast.copy_location(ast.Pass(), victim)
    elif kind == "const":
        consts = [n for n in ast.walk(node) if isinstance(n, ast.Constant) and isinstance(n.value, str) and n.value in SUPPORTED]
        c = consts[idx]
        c.value = SUPPORTED[(SUPPORTED.index(c.value) + 5) % len(SUPPORTED)]
    elif kind == "cmp":
        cmps = [n for n in ast.walk(node) if isinstance(n, ast.Compare) and isinstance(n.ops[0], (ast.Gt, ast.Lt, ast.GtE, ast.LtE))]
        c = cmps[idx]
        swap = {ast.Gt: ast.GtE, ast.GtE: ast.Gt, ast.Lt: ast.LtE, ast.LtE: ast.Lt}
        c.ops[0] = swap[type(c.ops[0])]()
    ast.fix_missing_locations(node)
    return node


def module_constants(relpath):
    """top-level `name = <list/str literal expression>` assignments of a module (e.g. supported_types)."""
    _, tree = module_ast(relpath)
    env = {}
    for s in tree.body:
        if isinstance(s, ast.Assign) and len(s.targets) == 1 and isinstance(s.targets[0], ast.Name):
            try:
                env[s.targets[0].id] = _const_eval(s.value, env)
            except Unsupported:
                pass
    return env


def _const_eval(e, env):
    if isinstance(e, ast.Constant) and isinstance(e.value, (str, int, bool)):
        return e.value
    if isinstance(e, ast.List):
        return [_const_eval(x, env) for x in e.elts]
    if isinstance(e, ast.Name) and e.id in env:
        return env[e.id]
    if isinstance(e, ast.BinOp) and isinstance(e.op, ast.Add):
        return _const_eval(e.left, env) + _const_eval(e.right, env)
    raise Unsupported("const")
