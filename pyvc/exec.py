"""pyvc executor: interprets the subset of Python described in DESIGN 3.2 over symbolic states."""
import ast
import copy
import os

import z3

from pyvc.engine import (NONE, BBDict, BoundMethod, CircuitRec, Ctx, DictV, FuncV, Graph, GraphNodesView, ModuleV,
                         NameV, NodeAttrView, NoneV, ObjRef, Opaque, Out, SetV, State, StrLit, TupleV, TypeV,
                         Unsupported, alloc)

B = z3.BoolSort()
FEAS_STATS = {"calls": 0, "time": 0.0, "unknown": 0}


class Coll(SetV):
    """set or list of names.  Lists are multisets (cnt: term->Int) whose order is unknown (A4)."""

    def __init__(self, mem, cnt=None, elems=None, is_list=False):
        super().__init__(mem, elems=elems, is_list=is_list)
        self.cnt = cnt

    def count(self, x):
        if self.cnt is not None:
            return self.cnt(x)
        return z3.If(self.mem(x), 1, 0)

    @staticmethod
    def explicit(terms, is_list=True):
        terms = list(terms)

        def mem(x, ts=terms):
            return z3.Or([x == t for t in ts]) if ts else z3.BoolVal(False)

        def cnt(x, ts=terms):
            return z3.Sum([z3.If(x == t, 1, 0) for t in ts]) if ts else z3.IntVal(0)
        return Coll(mem, cnt if is_list else None, elems=terms, is_list=is_list)

    @staticmethod
    def from_array(arr, is_list=False):
        return Coll(lambda x, a=arr: z3.Select(a, x), is_list=is_list)

    @staticmethod
    def from_cnt_array(arr):
        return Coll(lambda x, a=arr: z3.Select(a, x) > 0, cnt=lambda x, a=arr: z3.Select(a, x), is_list=True)


class PairSet:
    def __init__(self, mem):
        self.mem = mem  # (u, v) -> Bool


class StrSet:
    """a python list/tuple/str of literal strings (type lists, digit strings)"""

    def __init__(self, items):
        self.items = list(items)


class ErrList:
    """a list of strings of which only emptiness matters (lint's `errors`)"""

    def __init__(self, nonempty):
        self.nonempty = nonempty


class Exec:
    def __init__(self, ctx, summaries=None, module_consts=None, loop_specs=None, fname="?"):
        self.ctx = ctx
        self.summaries = summaries or {}
        self.consts = module_consts or {}
        self.loop_specs = loop_specs or {}
        self.fname = fname
        self.loop_ordinal = 0
        self.quiet = 0  # >0: do not emit obligations (re-evaluation of comprehension bodies)
        self.str_empty = z3.Function("str_is_empty", ctx.Name, B)
        self.starts_digit = z3.Function("str_starts_with_digit", ctx.Name, B)
        self.has_dot = z3.Function("str_has_dot", ctx.Name, B)
        self.dot_prefix = z3.Function("str_before_first_dot", ctx.Name, ctx.Name)
        self.dot_suffix = z3.Function("str_after_last_dot", ctx.Name, ctx.Name)
        self.under = z3.Function("str_dots_to_underscores", ctx.Name, ctx.Name)

    # ------------------------------------------------------------------ helpers
    def oblige(self, st, name, goal, kind="pre-of-callee", line=None):
        if self.quiet:
            return
        self.ctx.oblige(f"{self.fname}/{kind}:{name}" + (f"@{line}" if line else "") + f"~{st.pathid()}", st.pc, goal, kind, line)

    def reach(self, g):
        """`x is a proper ancestor of y in g`: an uninterpreted relation of the graph's node and edge arrays; its meaning
        is the assumed contract of networkx.ancestors / descendants (nothing about it is axiomatised here)"""
        if not hasattr(self, "_reach_fn"):
            NB = z3.ArraySort(self.ctx.Name, B)
            self._reach_fn = z3.Function("nx_reaches", NB, z3.ArraySort(self.ctx.Name, NB), self.ctx.Name, self.ctx.Name, B)
        return lambda x, y, g=g: self._reach_fn(g.N, g.FI, x, y)

    def acyclic(self, g):
        if not hasattr(self, "_acyclic_fn"):
            NB = z3.ArraySort(self.ctx.Name, B)
            self._acyclic_fn = z3.Function("nx_is_dag", NB, z3.ArraySort(self.ctx.Name, NB), B)
        return self._acyclic_fn(g.N, g.FI)

    def name_term(self, v):
        if isinstance(v, NameV):
            return v.term
        if isinstance(v, StrLit):
            c = self.ctx.name_lit(v.s)
            seen = self.__dict__.setdefault("_lit_facts", set())
            if v.s not in seen:
                # what the two string predicates say about a literal is known
                seen.add(v.s)
                self.ctx.axioms.append(self.str_empty(c) == z3.BoolVal(v.s == ""))
                self.ctx.axioms.append(self.starts_digit(c) == z3.BoolVal(v.s[:1].isdigit()))
            return c
        if z3.is_expr(v) and v.sort() == self.ctx.Name:
            return v
        raise Unsupported(f"expected a name, got {v!r}")

    def type_term(self, v):
        if isinstance(v, TypeV):
            return v.term
        if isinstance(v, StrLit):
            return self.ctx.type_lit(v.s)
        raise Unsupported(f"expected a type, got {v!r}")

    def as_coll(self, v):
        if isinstance(v, Coll):
            return v
        if isinstance(v, list):
            return Coll.explicit([self.name_term(x) for x in v])
        if isinstance(v, TupleV):
            return Coll.explicit([self.name_term(x) for x in v.items])
        if isinstance(v, (NameV, StrLit)):
            raise Unsupported("string used as a collection")
        raise Unsupported(f"expected a collection, got {v!r}")

    def truthy(self, v):
        if isinstance(v, bool):
            return z3.BoolVal(v)
        if z3.is_expr(v) and v.sort() == B:
            return v
        if z3.is_expr(v) and v.sort() == z3.IntSort():
            return v != 0
        if isinstance(v, int):
            return z3.BoolVal(v != 0)
        if isinstance(v, NoneV):
            return z3.BoolVal(False)
        if isinstance(v, Coll):
            if v.elems is not None:
                return z3.BoolVal(len(v.elems) > 0)
            x = self.ctx.fresh_name("tx")
            return z3.Exists([x], v.mem(x))
        if isinstance(v, list):
            return z3.BoolVal(len(v) > 0)
        if isinstance(v, StrSet):
            return z3.BoolVal(len(v.items) > 0)
        if isinstance(v, StrLit):
            return z3.BoolVal(len(v.s) > 0)
        if isinstance(v, NameV):
            return z3.Not(self.str_empty(v.term))
        if isinstance(v, ErrList):
            return v.nonempty
        if isinstance(v, DictV):
            if v.items is not None:
                return z3.BoolVal(len(v.items) > 0)
            x = self.ctx.fresh_name("dx")
            return z3.Exists([x], v.dom(x))
        if isinstance(v, ObjRef):
            if v.kind == "Circuit":  # Circuit defines __len__
                x = self.ctx.fresh_name("cx")
                return z3.Exists([x], self._cur.g(v).node(x))
            if v.kind == "bbdict":
                x = self.ctx.fresh_name("bx")
                return z3.Exists([x], z3.Select(self._cur.heap[v.oid].dom, x))
            return z3.BoolVal(True)
        raise Unsupported(f"truthiness of {v!r}")

    def card(self, v):
        # one cardinality term per collection object (len(x) evaluated twice is the same number)
        if isinstance(v, Coll) and getattr(v, "_card_term", None) is not None:
            # the collection object may be shared by several paths: its defining axioms go to the current path too
            for ax in v._card_axioms:
                if not any(ax.eq(h) for h in self._cur.pc[-40:]):
                    self._cur.pc.append(ax)
            return v._card_term
        sink = []
        self.ctx.local_sink = sink
        try:
            r = self._card(v)
        finally:
            self.ctx.local_sink = None
        self._cur.pc.extend(sink)
        if isinstance(v, Coll) and v.elems is None:
            v._card_term = r
            v._card_axioms = sink
        return r

    def _card(self, v):
        if isinstance(v, Coll):
            if v.elems is not None and v.is_list:
                return z3.IntVal(len(v.elems))
            if v.elems is not None and not v.is_list:
                # set built from explicit terms: number of distinct terms
                ts = v.elems
                return z3.Sum([z3.If(z3.And([ts[i] != ts[j] for j in range(i)]), 1, 0) for i in range(len(ts))]) if ts else z3.IntVal(0)
            if v.is_list and v.cnt is not None:
                return self.ctx.len_of_multiset(v.mem, v.cnt)
            return self.ctx.card_of(v.mem)
        if isinstance(v, list):
            return z3.IntVal(len(v))
        if isinstance(v, StrSet):
            return z3.IntVal(len(v.items))
        if isinstance(v, ErrList):
            c = self.ctx.fresh("nerr", z3.IntSort())
            self._cur.pc.append(z3.And(c >= 0, (c > 0) == v.nonempty))
            return c
        raise Unsupported(f"len of {v!r}")

    # ------------------------------------------------------------------ blocks / statements
    def run_block(self, stmts, st):
        outs = [Out("normal", st)]
        cuts = getattr(self, "cuts", None) or {}
        for s in stmts:
            nxt = []
            for o in outs:
                if o.kind != "normal":
                    nxt.append(o)
                else:
                    nxt.extend(self.stmt(s, o.st))
            outs = nxt
            cut = cuts.get(("node", id(s))) or cuts.get(getattr(s, "end_lineno", None)) or cuts.get(getattr(s, "lineno", None))
            if cut is not None:
                # sidecar cut point: intermediate facts are proved here (small context) and carried forward as hypotheses
                for o in outs:
                    if o.kind == "normal":
                        res_ = cut(self, o.st)
                        forget = ()
                        if isinstance(res_, dict):
                            forget, res_ = tuple(res_.get("forget", ())), res_["facts"]
                        for nm, f in res_:
                            self.oblige(o.st, nm, f, "assert", s.lineno)
                        if forget:
                            # abstraction: hypotheses about intermediate objects are dropped once the lemma facts
                            # characterise the current state (dropping hypotheses is always sound)
                            o.st.pc = [h for h in o.st.pc if not any(str(c).startswith(forget) for c in _consts_of(h))]
                        for nm, f in res_:
                            o.st.pc.append(f)
        return outs

    def stmt(self, s, st):
        self._cur = st
        self._cur_line = getattr(s, "lineno", 0)
        if isinstance(s, ast.Expr):
            if isinstance(s.value, ast.Constant):
                return [Out("normal", st)]  # docstring
            res = []
            for o in self.expr_outs(s.value, st):
                res.append(o if o.kind != "value" else Out("normal", o.st))
            return res
        if isinstance(s, ast.Pass):
            return [Out("normal", st)]
        if isinstance(s, ast.Return):
            if s.value is None:
                return [Out("return", st, NONE)]
            return [o if o.kind != "value" else Out("return", o.st, o.value) for o in self.expr_outs(s.value, st)]
        if isinstance(s, ast.Raise):
            if s.exc is None:
                return [Out("raise", st, None, st.env.get("__active_exc__", "Exception"))]
            exc = s.exc
            cls = exc.func.id if isinstance(exc, ast.Call) and isinstance(exc.func, ast.Name) else (exc.id if isinstance(exc, ast.Name) else "Exception")
            return [Out("raise", st, None, cls)]
        if isinstance(s, ast.Assign):
            res = []
            for o in self.expr_outs(s.value, st):
                if o.kind != "value":
                    res.append(o)
                    continue
                def do_assign(st2, val=o.value):
                    for tgt in s.targets:
                        self.assign(tgt, val, st2)
                    return None
                for o2 in self.explore(o.st, do_assign):
                    res.append(Out("normal", o2.st) if o2.kind == "value" else o2)
            return res
        if isinstance(s, ast.AugAssign):
            binop = ast.BinOp(left=copy.deepcopy(s.target), op=s.op, right=s.value)
            for n_ in ast.walk(binop.left):
                if hasattr(n_, "ctx"):
                    n_.ctx = ast.Load()
            ast.copy_location(binop, s)
            ast.fix_missing_locations(binop)
            return self.stmt(ast.copy_location(ast.Assign(targets=[s.target], value=binop), s), st)
        if isinstance(s, ast.If):
            res = []
            for o in self.expr_outs(s.test, st):
                if o.kind != "value":
                    res.append(o)
                    continue
                c = o.value
                if isinstance(c, bool):
                    res.extend(self.run_block(s.body if c else s.orelse, o.st))
                    continue
                c = z3.simplify(self.truthy(c))
                if z3.is_true(c):
                    res.extend(self.run_block(s.body, o.st))
                elif z3.is_false(c):
                    res.extend(self.run_block(s.orelse, o.st))
                else:
                    res.extend(self.run_block(s.body, o.st.fork(c, mark=("if", s.lineno, 1))))
                    res.extend(self.run_block(s.orelse, o.st.fork(z3.Not(c), mark=("if", s.lineno, 0))))
            return res
        if isinstance(s, ast.For):
            return self.for_loop(s, st)
        if isinstance(s, ast.While):
            return self.while_loop(s, st)
        if isinstance(s, ast.FunctionDef):
            st2 = st.fork()
            st2.env[s.name] = FuncV(s, st2.env, s.name)
            return [Out("normal", st2)]
        if isinstance(s, ast.Try):
            return self.try_stmt(s, st)
        if isinstance(s, ast.Continue):
            return [Out("continue", st)]
        if isinstance(s, ast.Break):
            return [Out("break", st)]
        if isinstance(s, (ast.Import, ast.ImportFrom)):
            return [Out("normal", st)]
        raise Unsupported(f"statement {type(s).__name__} at line {s.lineno}")

    def try_stmt(self, s, st):
        if s.finalbody or s.orelse:
            raise Unsupported("try/finally/else")
        res = []
        for o in self.run_block(s.body, st):
            if o.kind != "raise":
                res.append(o)
                continue
            handled = False
            for h in s.handlers:
                names = []
                if h.type is None:
                    names = None
                elif isinstance(h.type, ast.Name):
                    names = [h.type.id]
                elif isinstance(h.type, ast.Tuple):
                    names = [e.id for e in h.type.elts]
                elif isinstance(h.type, ast.Attribute):
                    names = [h.type.attr]
                if names is None or o.exc in names or (o.exc in ("KeyError", "IndexError") and "LookupError" in names) or "Exception" in names:
                    st2 = o.st.fork()
                    st2.env["__active_exc__"] = o.exc
                    if h.name:
                        st2.env[h.name] = Opaque("exception")
                    res.extend(self.run_block(h.body, st2))
                    handled = True
                    break
            if not handled:
                res.append(o)
        return res

    def assign(self, tgt, val, st):
        if isinstance(tgt, ast.Name):
            st.env[tgt.id] = val
            return
        if isinstance(tgt, (ast.Tuple, ast.List)):
            items = val.items if isinstance(val, TupleV) else val
            if not isinstance(items, list) or len(items) != len(tgt.elts):
                raise Unsupported("tuple assignment")
            for t, v in zip(tgt.elts, items):
                self.assign(t, v, st)
            return
        if isinstance(tgt, ast.Subscript):
            base = self.ev(tgt.value, st)
            if isinstance(base, NodeAttrView):
                key = self.ev(tgt.slice, st)
                g = st.g(base.g)
                n = self.name_term(base.n)
                # nx: g.nodes[n] raises KeyError when n is absent -- evaluated before (expr_outs of the target is not
                # generated for stores), so require it here as an obligation-free path split in `store_attr`
                if not isinstance(key, StrLit):
                    raise Unsupported("attribute key")
                if key.s == "type":
                    st.set_g(base.g, g.copy(ty=z3.Store(g.ty, n, self.type_term(val)), hasty=z3.Store(g.hasty, n, True)))
                elif key.s == "output":
                    st.set_g(base.g, g.copy(out=z3.Store(g.out, n, self.truthy(val)), hasout=z3.Store(g.hasout, n, True)))
                else:
                    raise Unsupported("attribute " + key.s)
                return
            if isinstance(base, ObjRef) and base.kind == "bbdict":
                rec = st.heap[base.oid]
                k = self.name_term(self.ev(tgt.slice, st))
                st.heap[base.oid] = BBDict(z3.Store(rec.dom, k, True), z3.Store(rec.val, k, val.term if hasattr(val, "term") else val))
                return
            if isinstance(base, DictV) and isinstance(tgt.value, ast.Name):
                if any(v_ is base and k_ != tgt.value.id for k_, v_ in st.env.items()):
                    raise Unsupported(f"the dict bound to {tgt.value.id} has another name as well and is stored into")
                k = self.name_term(self.ev(tgt.slice, st))
                if not isinstance(val, (NameV, StrLit)):
                    raise Unsupported("dict store of a non-name value")
                v = self.name_term(val)
                old = base
                dom0 = old.dom if old.items is None else (lambda y, ks=[kk for kk, _ in old.items]: z3.Or([y == kk for kk in ks]) if ks else z3.BoolVal(False))
                val0 = old.val
                if old.items:
                    raise Unsupported("store into a non-empty explicit dict")
                new = DictV(lambda y, d=dom0, k=k: z3.Or(d(y), y == k),
                            (lambda y, f=val0, k=k, v=v: NameV(z3.If(y == k, v, f(y).term))) if val0 is not None else (lambda y, v=v: NameV(v)))
                st.env[tgt.value.id] = new
                return
            if isinstance(base, DictV):
                raise Unsupported("dict store")
        if isinstance(tgt, ast.Attribute):
            base = self.ev(tgt.value, st)
            if isinstance(base, ObjRef) and base.kind == "Circuit" and tgt.attr == "name":
                rec = st.heap[base.oid]
                st.heap[base.oid] = CircuitRec(rec.graph, rec.bbs, val)
                return
        raise Unsupported(f"assignment target {ast.dump(tgt)[:80]}")

    # ------------------------------------------------------------------ loops
    def static_ordinal(self, s):
        """loops are numbered by their position in the function's source (1-based, pre-order), not by the order in
        which paths happen to reach them"""
        idx = getattr(self, "loop_index", None)
        if idx and id(s) in idx:
            return idx[id(s)]
        self.loop_ordinal += 1
        return self.loop_ordinal

    def for_loop(self, s, st):
        ordinal = self.static_ordinal(s)
        spec = self.loop_specs.get(ordinal)
        res = []
        for o in self.expr_outs(s.iter, st):
            if o.kind != "value":
                res.append(o)
                continue
            it = o.value
            if spec is not None:
                res.extend(spec(self, s, o.st, it, ordinal))
                continue
            if isinstance(it, (list, StrSet)) or (isinstance(it, Coll) and it.elems is not None) or isinstance(it, range):
                res.extend(self.unrolled_for(s, o.st, it))
                continue
            cl = self.clause_append_loop(s, o.st, it)
            if cl is not None:
                res.extend(cl)
                continue
            if isinstance(it, DictV) and it.items is not None:
                res.extend(self.unrolled_for(s, o.st, [TupleV([NameV(k), v]) for k, v in it.items]))
                continue
            res.extend(self.search_loop(s, o.st, it, ordinal))
        return res

    def unrolled_for(self, s, st, it):
        if isinstance(it, Coll):
            items = [NameV(t) for t in it.elems]
        elif isinstance(it, StrSet):
            items = [StrLit(x) for x in it.items]
        else:
            items = list(it)
        outs = [Out("normal", st)]
        for item in items:
            nxt = []
            for o in outs:
                if o.kind != "normal":
                    nxt.append(o)
                    continue
                st2 = o.st.fork()
                self.assign(s.target, item, st2)
                for b in self.run_block(s.body, st2):
                    if b.kind == "continue":
                        nxt.append(Out("normal", b.st))
                    elif b.kind == "break":
                        nxt.append(Out("broke", b.st))
                    else:
                        nxt.append(b)
            outs = nxt
        return [Out("normal", o.st) if o.kind == "broke" else o for o in outs]

    def clause_append_loop(self, s, st, it):
        """derived summary of `for f in S: <cnf>.append(<clause(f)>)`: every element contributes its clause exactly
        once and the order of clauses is irrelevant, so afterwards  Sat' == Sat and (forall f in S. clause(f) holds)."""
        if not (len(s.body) == 1 and isinstance(s.body[0], ast.Expr) and isinstance(s.body[0].value, ast.Call)
                and isinstance(s.body[0].value.func, ast.Attribute) and s.body[0].value.func.attr == "append" and not s.orelse):
            return None
        call = s.body[0].value
        try:
            tgt = self.ev(call.func.value, st.fork())
        except Unsupported:
            return None
        if not (isinstance(tgt, ObjRef) and tgt.kind == "CNF"):
            return None
        val, cond, scope = self.iter_member(it, st)
        st1 = st.fork(cond)
        self.assign(s.target, val, st1)
        outs = self.expr_outs(call.args[0], st1)
        if len(outs) != 1 or outs[0].kind != "value":
            raise Unsupported("clause expression may raise")
        from pyvc import models
        t = models.clause_true(self, outs[0].value)
        x = scope[0]
        st2 = st.fork()
        rec = dict(st2.heap[tgt.oid])
        rec["sat"] = z3.And(rec["sat"], z3.ForAll([x], z3.Implies(cond, t)))
        cl = outs[0].value
        if isinstance(cl, list):
            cl = LitColl.of(cl)
        men = self.ctx.fresh("mentioned", z3.ArraySort(self.ctx.Obj, B))
        o_ = self.ctx.fresh("mo", self.ctx.Obj)
        ax = z3.ForAll([o_], z3.Select(men, o_) == z3.Or(z3.Select(rec["men"], o_), z3.Exists([x], z3.And(cond, z3.Or(cl.pos(o_), cl.neg(o_))))))
        self.ctx.def_ids.add(ax.get_id())
        st2.pc.append(ax)
        rec["men"] = men
        st2.heap[tgt.oid] = rec
        return [Out("normal", st2)]

    def iter_member(self, it, st):
        """(fresh loop value, membership condition, scope vars) for iterating a symbolic collection."""
        if isinstance(it, Coll):
            x = self.ctx.fresh_name("it")
            return NameV(x), it.mem(x), [x]
        if isinstance(it, ObjRef) and it.kind in ("Circuit", "DiGraph"):
            x = self.ctx.fresh_name("it")
            return NameV(x), st.g(it).node(x), [x]
        if isinstance(it, GraphNodesView):
            x = self.ctx.fresh_name("it")
            return NameV(x), st.g(it.g).node(x), [x]
        if isinstance(it, ObjRef) and it.kind == "bbdict":
            x = self.ctx.fresh_name("it")
            return NameV(x), z3.Select(st.heap[it.oid].dom, x), [x]
        if isinstance(it, DictV):
            x = self.ctx.fresh_name("it")
            return NameV(x), it.dom(x), [x]
        from pyvc.models import DictItems
        if isinstance(it, DictItems):
            x = self.ctx.fresh_name("it")
            v = it.d.val(x)
            return TupleV([NameV(x), v]), it.d.dom(x), [x]
        if isinstance(it, BBItems):
            x = self.ctx.fresh_name("it")
            rec = st.heap[it.oid]
            return TupleV([NameV(x), BBVal(z3.Select(rec.val, x))]), z3.Select(rec.dom, x), [x]
        raise Unsupported(f"iteration over {it!r}")

    def search_loop(self, s, st, it, ordinal):
        """`for x in S: body` where the body has no effect on the state (it may only raise / continue).
        Summary: raises when some element raises; otherwise the state is unchanged and no element raises."""
        val, cond, scope = self.iter_member(it, st)
        st1 = st.fork(cond)
        self.assign(s.target, val, st1)
        mark = len(self.ctx.scope_vars)
        self.ctx.scope_vars.extend(scope)
        try:
            outs = self.run_block(s.body, st1)
        finally:
            inner = self.ctx.scope_vars[mark + len(scope):]
            del self.ctx.scope_vars[mark:]
        res = []
        raise_conds = []
        base = len(st.pc) + 1
        for o in outs:
            local = z3.And(o.st.pc[base:]) if len(o.st.pc) > base else z3.BoolVal(True)
            if o.kind == "raise":
                # variables introduced inside the body (inner loop variables) are existentially closed
                free_inner = [v for v in _consts_of(local) if _is_fresh_iter(v) and not any(v.eq(sv) for sv in scope) and not _occurs(v, st.pc)]
                closed = z3.Exists(free_inner, local) if free_inner else local
                raise_conds.append(closed)
                res.append(Out("raise", State(st.env, o.st.heap, st.pc + [cond, local], o.st.trace), None, o.exc))
            elif o.kind in ("normal", "continue"):
                if not _same_heap(o.st.heap, st1.heap) or not _same_env(o.st.env, st1.env, s):
                    raise Unsupported(f"loop #{ordinal} at line {s.lineno} has effects and no invariant was supplied")
            else:
                raise Unsupported(f"{o.kind} inside loop #{ordinal} at line {s.lineno} needs an invariant")
        after = st.fork(z3.ForAll(scope, z3.Implies(cond, z3.Not(z3.Or(raise_conds))))) if raise_conds else st.fork()
        for nm in _assigned_names(s):
            after.env.pop(nm, None)  # temporaries of the body: unknown after the loop (reading one is outside-subset)
        res.append(Out("normal", after))
        return res

    def while_loop(self, s, st):
        ordinal = self.static_ordinal(s)
        spec = self.loop_specs.get(ordinal)
        if spec is None:
            raise Unsupported(f"while loop at line {s.lineno} needs an invariant")
        return spec(self, s, st, None, ordinal)

    # -- loops with a sidecar invariant --------------------------------------------------------------
    def havoc(self, st, locals_, objs):
        """fresh unknown values for the named locals and the graph/registry of the named circuit objects"""
        ctx = self.ctx
        st2 = st.fork()
        kinds = locals_ if isinstance(locals_, dict) else {}
        for nm in locals_:
            v = st.env.get(nm)
            if kinds.get(nm) == "errlist":
                v = ErrList(z3.BoolVal(False))
            st2.env[nm] = self.fresh_like(v, nm)
        for ref in objs:
            rec = st2.heap[ref.oid]
            if isinstance(rec, CircuitRec):
                if not getattr(ref, "registry_only", False):
                    g = Graph.fresh(ctx, "hv")
                    st2.heap[rec.graph] = g
                    st2.pc.append(g.wf(ctx))
                if getattr(ref, "havoc_registry", False):
                    st2.heap[rec.bbs] = BBDict.fresh(ctx, "hv")
            elif isinstance(rec, Graph):
                g = Graph.fresh(ctx, "hv")
                st2.heap[ref.oid] = g
                st2.pc.append(g.wf(ctx))
            elif isinstance(rec, dict) and rec.get("kind") == "CNF":
                st2.heap[ref.oid] = {"kind": "CNF", "sat": ctx.fresh("sat_so_far", B), "men": ctx.fresh("mentioned", z3.ArraySort(ctx.Obj, B))}
        return st2

    def fresh_like(self, v, nm):
        ctx = self.ctx
        if isinstance(v, Coll):
            if v.is_list:
                arr = ctx.fresh(nm + "_cnt", z3.ArraySort(ctx.Name, z3.IntSort()))
                x = ctx.fresh_name("hx")
                ctx.axioms.append(z3.ForAll([x], z3.Select(arr, x) >= 0))
                return Coll.from_cnt_array(arr)
            return Coll.from_array(ctx.arr_nb(nm))
        if isinstance(v, ErrList):
            return ErrList(ctx.fresh(nm + "_nonempty", B))
        if isinstance(v, DictV):
            dom = ctx.arr_nb(nm + "_dom")
            fn = z3.Function(f"{nm}_val!{next(ctx._n)}", ctx.Name, ctx.Name)
            return DictV(lambda y, d=dom: z3.Select(d, y), lambda y, f=fn: NameV(f(y)))
        if isinstance(v, NameV):
            return NameV(ctx.fresh_name(nm))
        if isinstance(v, bool) or (z3.is_expr(v) and v.sort() == B):
            return ctx.fresh(nm, B)
        if isinstance(v, int) or (z3.is_expr(v) and v.sort() == z3.IntSort()):
            return ctx.fresh(nm, z3.IntSort())
        raise Unsupported(f"cannot havoc local {nm} = {v!r}")

    @staticmethod
    def _conj(f):
        """an invariant may be given as one formula or as a list of named conjuncts (each becomes its own VC)"""
        if isinstance(f, list):
            return [(n, g) for n, g in f]
        return [("", f)]

    def _oblige_inv(self, st, lab, f, kind, line):
        for n, g in self._conj(f):
            self.oblige(st, lab + (":" + n if n else ""), g, kind, line)

    def _assume_inv(self, st, f):
        for _, g in self._conj(f):
            st.pc.append(g)

    def invariant_for(self, s, st, it, ordinal, inv, mod_locals=(), mod_objs=(), label=None):
        """`for x in S: body` with invariant inv(ex, state, done:Coll) -> Bool (DESIGN 3.3)."""
        ctx = self.ctx
        lab = label or f"loop{ordinal}"
        objs = [st.env[o] if isinstance(o, str) else o for o in mod_objs]
        empty = Coll(lambda x: z3.BoolVal(False), elems=[], is_list=False)
        self._oblige_inv(st, lab, inv(self, st, empty), "inv-init", s.lineno)
        sth = self.havoc(st, mod_locals, objs)
        sth.trace = st.trace + (("for-step", s.lineno),)
        done = Coll.from_array(ctx.arr_nb("done"))
        val, cond, scope = self.iter_member(it, st)
        x = scope[0]
        y = ctx.fresh_name("dy")
        allmem = lambda t: z3.substitute(cond, (x, t))
        sth.pc.append(z3.ForAll([y], z3.Implies(done.mem(y), allmem(y))))
        self._assume_inv(sth, inv(self, sth, done))
        sth.pc.append(cond)
        sth.pc.append(z3.Not(done.mem(x)))
        self.assign(s.target, val, sth)
        res = []
        done2 = Coll(lambda t, d=done, x=x: z3.Or(d.mem(t), t == x))
        env_in = dict(sth.env)
        dropped = set(_assigned_names(s))
        for o in self.run_block(s.body, sth):
            if o.kind in ("normal", "continue"):
                # a local changed by the body (also through .append / .pop, which rebind the name) must be declared as
                # modified, or be a temporary that is dropped after the loop: otherwise its pre-loop value would survive
                for k_, v_ in o.st.env.items():
                    if k_ not in mod_locals and k_ not in dropped and not k_.startswith("__") and env_in.get(k_) is not v_:
                        raise Unsupported(f"loop #{ordinal} changes local {k_}, which the sidecar does not declare as modified")
                self._oblige_inv(o.st, lab, inv(self, o.st, done2), "inv-step", s.lineno)
            elif o.kind in ("raise", "return"):
                res.append(o)
            else:
                raise Unsupported(f"{o.kind} in loop #{ordinal} with invariant")
        ste = self.havoc(st, mod_locals, objs)
        ste.trace = st.trace + (("for-exit", s.lineno),)
        self._assume_inv(ste, inv(self, ste, Coll(allmem)))
        for nm in _assigned_names(s):
            if nm not in mod_locals:
                ste.env.pop(nm, None)
        res.append(Out("normal", ste))
        return res

    def invariant_while(self, s, st, ordinal, inv, mod_locals=(), mod_objs=(), label=None):
        lab = label or f"loop{ordinal}"
        objs = [st.env[o] if isinstance(o, str) else o for o in mod_objs]
        self._oblige_inv(st, lab, inv(self, st), "inv-init", s.lineno)
        res = []
        never_runs = False
        sth = self.havoc(st, mod_locals, objs)
        sth.trace = st.trace + (("while-step", s.lineno),)
        self._assume_inv(sth, inv(self, sth))
        for c in self.expr_outs(s.test, sth):
            if c.kind != "value":
                res.append(c)
                continue
            t = self.truthy(c.value)
            if not self.feasible_strict(c.st, t):
                never_runs = True
                continue  # invariant and loop condition are contradictory: the body is never executed
            never_runs = False
            env_in = dict(c.st.env)
            dropped = set(_assigned_names(s))
            for o in self.run_block(s.body, c.st.fork(t)):
                if o.kind in ("normal", "continue"):
                    for k_, v_ in o.st.env.items():
                        if k_ not in mod_locals and k_ not in dropped and not k_.startswith("__") and env_in.get(k_) is not v_:
                            raise Unsupported(f"while loop #{ordinal} changes local {k_}, which the sidecar does not declare as modified")
                    self._oblige_inv(o.st, lab, inv(self, o.st), "inv-step", s.lineno)
                elif o.kind in ("raise", "return"):
                    res.append(o)
                else:
                    raise Unsupported(f"{o.kind} in while loop #{ordinal}")
        ste = self.havoc(st, mod_locals, objs)
        ste.trace = st.trace + (("while-exit", s.lineno),)
        self._assume_inv(ste, inv(self, ste))
        for c in self.expr_outs(s.test, ste):
            if c.kind != "value":
                continue  # already reported from the step state
            exit_st = c.st.fork(z3.Not(self.truthy(c.value)))
            for nm in _assigned_names(s):
                if nm not in mod_locals and not never_runs:
                    exit_st.env.pop(nm, None)
            res.append(Out("normal", exit_st))
        return res

    # ------------------------------------------------------------------ expressions
    def pure(self, e, st):
        """evaluate an expression that cannot raise / fork"""
        outs = self.expr_outs(e, st)
        vals = [o for o in outs if o.kind == "value"]
        if len(vals) != 1 or len(outs) != 1:
            raise Unsupported(f"expression with several outcomes used in a pure position (statement #{getattr(e, 'lineno', '?')})")
        st.env, st.heap, st.pc = vals[0].st.env, vals[0].st.heap, vals[0].st.pc
        return vals[0].value

    def explore(self, st, thunk):
        """Run thunk(private copy of st) under every feasible vector of decisions taken at choice points
        (`choice`/`split_raise`).  Evaluation is deterministic, so a replay with the same decision prefix reaches
        the same choice points in the same order.  Returns Out('value'|'raise', state, value/exc)."""
        outs = []
        work = [[]]
        guard = 0
        saved = (getattr(self, "_dec", None), getattr(self, "_taken", None), getattr(self, "_split_idx", 0), getattr(self, "_work", None))
        try:
            while work:
                dec = work.pop()
                guard += 1
                if guard > 200:
                    raise Unsupported("too many decision points in one expression")
                s = st.fork()
                self._dec, self._taken, self._split_idx, self._work = dec, [], 0, work
                try:
                    v = thunk(s)
                    outs.append(Out("value", s, v))
                except _Split as sp:
                    outs.append(Out("raise", sp.st.fork(), None, sp.exc))
        finally:
            self._dec, self._taken, self._split_idx, self._work = saved
        return outs

    def expr_outs(self, e, st):
        return self.explore(st, lambda s: self.ev(e, s))

    def feasible(self, st, cond):
        c = z3.simplify(cond)
        if z3.is_false(c):
            return False
        import time as _t
        t0 = _t.time()
        sol = z3.Solver()
        sol.set(timeout=int(os.environ.get("PYVC_FEAS_MS", "80")))
        sol.add(self.ctx.axioms)
        sol.add(st.pc)
        sol.add(c)
        from pyvc.verify import hard_check
        r = hard_check(sol, int(os.environ.get("PYVC_FEAS_MS", "80")))
        FEAS_STATS["calls"] += 1
        FEAS_STATS["time"] += _t.time() - t0
        if r == z3.unknown:
            FEAS_STATS["unknown"] += 1
        return r != z3.unsat

    def feasible_strict(self, st, cond, ms=3000):
        """like feasible, with a larger budget (used to skip loop bodies that provably never run)"""
        from pyvc.verify import hard_check
        sol = z3.Solver()
        sol.add(self.ctx.axioms)
        sol.add(st.pc)
        sol.add(cond)
        return hard_check(sol, ms) != z3.unsat

    def choice(self, st, cond):
        """decide `cond` at this point of the evaluation (forking the exploration when both sides are feasible);
        the decision is added to the path condition."""
        i = self._split_idx
        self._split_idx += 1
        if i < len(self._dec):
            d = self._dec[i]
        else:
            ft = self.feasible(st, cond)
            ff = ft and self.feasible(st, z3.Not(cond))
            if ft and ff:
                d = True
                self._work.append(self._taken + [False])
            else:
                d = ft
        self._taken.append(d)
        st.pc.append(cond if d else z3.Not(cond))
        line = getattr(self, "_cur_line", 0)
        st.trace = st.trace + (("ch", line, self._choice_tag(cond), int(d)),)
        return d

    def _choice_tag(self, cond):
        # a coarse, run-independent fingerprint of the condition: its top-level operator names
        try:
            return cond.decl().name() + "/" + str(cond.num_args())
        except Exception:
            return "?"

    def split_raise(self, st, cond, exc):
        """the expression being evaluated raises `exc` when `cond` holds"""
        if self.choice(st, cond):
            raise _Split(cond, exc, st)

    def ev(self, e, st):
        self._cur = st
        ctx = self.ctx
        if isinstance(e, ast.Constant):
            if isinstance(e.value, str):
                return StrLit(e.value)
            if e.value is None:
                return NONE
            return e.value
        if isinstance(e, ast.Name):
            if e.id in st.env:
                return st.env[e.id]
            if e.id in self.consts:
                c = self.consts[e.id]
                return StrSet(c) if isinstance(c, list) else c
            if e.id in ("nx", "cg", "re", "circuitgraph"):
                return ModuleV(e.id)
            raise Unsupported(f"unknown name {e.id} (statement #{e.lineno})")
        if isinstance(e, ast.List) or isinstance(e, ast.Tuple):
            items = [self.ev(x, st) for x in e.elts]
            if not items and isinstance(e, ast.List):
                return Coll.explicit([])
            if items and all(isinstance(x, StrLit) for x in items) and all(x.s in ctx.tval or len(x.s) <= 12 for x in items) and self._looks_like_types(items):
                return StrSet([x.s for x in items])
            if isinstance(e, ast.Tuple):
                return TupleV(items)
            if items and all(isinstance(x, LitV) for x in items):
                return LitColl.of(items)
            if all(isinstance(x, (NameV, StrLit)) for x in items):
                return Coll.explicit([self.name_term(x) for x in items])
            return items
        if isinstance(e, ast.Set):
            items = [self.ev(x, st) for x in e.elts]
            return Coll.explicit([self.name_term(x) for x in items], is_list=False)
        if isinstance(e, ast.JoinedStr):
            return self.fstring(e, st)
        if isinstance(e, ast.UnaryOp):
            v = self.ev(e.operand, st)
            if isinstance(e.op, ast.Not):
                t = self.truthy(v)
                return z3.Not(t)
            if isinstance(e.op, ast.USub):
                if isinstance(v, LitV):
                    return LitV(v.obj, not v.pos)
                return -v
            raise Unsupported("unary op")
        if isinstance(e, ast.BoolOp):
            return self.boolop(e, st)
        if isinstance(e, ast.Compare):
            return self.compare(e, st)
        if isinstance(e, ast.BinOp):
            return self.binop(e, st)
        if isinstance(e, ast.IfExp):
            c = self.truthy(self.ev(e.test, st))
            c = z3.simplify(c)
            if z3.is_true(c):
                return self.ev(e.body, st)
            if z3.is_false(c):
                return self.ev(e.orelse, st)
            sa, sb = st.fork(c), st.fork(z3.Not(c))
            ma, mb = len(sa.pc), len(sb.pc)
            a, b = self.ev(e.body, sa), self.ev(e.orelse, sb)
            for s_, m_, g_ in ((sa, ma, c), (sb, mb, z3.Not(c))):
                if any(s_.env.get(k) is not v for k, v in st.env.items()) or not _same_heap(s_.heap, st.heap):
                    raise Unsupported("an arm of a conditional expression has a side effect")
                for f in s_.pc[m_:]:
                    st.pc.append(z3.Implies(g_, f))
            if isinstance(a, StrLit) and isinstance(b, StrLit):
                return TypeV(z3.If(c, self.type_term(a), self.type_term(b)))
            if z3.is_expr(a) or z3.is_expr(b) or isinstance(a, (bool, int)):
                return z3.If(c, a, b)
            raise Unsupported("conditional expression")
        if isinstance(e, ast.Attribute):
            return self.attribute(e, st)
        if isinstance(e, ast.Subscript):
            return self.subscript(e, st)
        if isinstance(e, ast.Call):
            return self.call(e, st)
        if isinstance(e, (ast.ListComp, ast.SetComp, ast.GeneratorExp)):
            return self.comprehension(e, st)
        if isinstance(e, ast.DictComp):
            return self.dictcomp(e, st)
        if isinstance(e, ast.Dict):
            if not e.keys:
                junk = z3.Function(f"empty_dict_val!{next(self.ctx._n)}", self.ctx.Name, self.ctx.Name)
                return DictV(lambda x: z3.BoolVal(False), lambda x, f=junk: NameV(f(x)), items=[])
            kvals = [self.ev(k, st) for k in e.keys]
            ks = [self.name_term(k) for k in kvals]
            vs = [self.ev(v, st) for v in e.values]
            d = DictV(lambda x, ks=ks: z3.Or([x == k for k in ks]), None, items=list(zip(ks, vs)))
            if all(isinstance(a, StrLit) for a in kvals) and all(isinstance(b, StrLit) for b in vs):
                d.str_items = [(a.s, b.s) for a, b in zip(kvals, vs)]
            return d
        raise Unsupported(f"expression {type(e).__name__} (statement #{getattr(e, 'lineno', '?')})")

    def _looks_like_types(self, items):
        return all(x.s in self.ctx.tval for x in items)

    def fstring(self, e, st):
        parts, holes = [""], []
        for v in e.values:
            if isinstance(v, ast.Constant):
                parts[-1] += v.value
            else:
                try:
                    hv = self.ev(v.value, st)
                except Unsupported:
                    return Opaque("fstring")
                if isinstance(hv, StrLit):
                    parts[-1] += hv.s
                elif isinstance(hv, NameV):
                    holes.append(hv.term)
                    parts.append("")
                elif isinstance(hv, int) and not isinstance(hv, bool):
                    parts[-1] += str(hv)
                elif z3.is_expr(hv) and hv.sort() == z3.IntSort():
                    holes.append(self.itoa(hv))
                    parts.append("")
                else:
                    return Opaque("fstring")
        if not holes:
            return StrLit(parts[0])
        if any(" " in p_ or "\n" in p_ for p_ in parts):
            return Opaque("message")  # text with blanks is an exception/log message, never a node name
        f = self.ctx.template(parts)
        return NameV(f(*holes))

    def itoa(self, i):
        if not hasattr(self, "_itoa"):
            self._itoa = z3.Function("itoa", z3.IntSort(), self.ctx.Name)
            a, b = z3.Ints("ia ib")
            if not self.ctx.finite:  # (an injection Int -> Name does not exist over a finite Name universe)
              self.ctx.axioms.append(z3.ForAll([a, b], z3.Implies(z3.And(a >= 0, b >= 0, self._itoa(a) == self._itoa(b)), a == b)))
        return self._itoa(i)

    def boolop(self, e, st):
        # python short-circuit: later operands are evaluated under the guard of the earlier ones
        is_or = isinstance(e.op, ast.Or)
        acc = []
        guards = []
        guard_st = st
        for sub in e.values:
            mark = len(guard_st.pc)
            v = self.ev(sub, guard_st)
            t = self.truthy(v)
            if guard_st is not st:
                # facts learned while evaluating a guarded operand (e.g. the element returned by .pop()) hold under
                # the guard: keep them in the enclosing state in that conditional form
                for f in guard_st.pc[mark:]:
                    st.pc.append(z3.Implies(z3.And(guards), f))
                # side effects of a guarded operand happen only when the guard holds: a rebound local collection
                # (s.pop() inside `a and ...`) becomes the conditional value; anything else is outside the subset
                gd = z3.And(guards)
                for nm_, new_ in list(guard_st.env.items()):
                    old_ = st.env.get(nm_)
                    if new_ is old_:
                        continue
                    if isinstance(new_, Coll) and isinstance(old_, Coll) and new_.is_list == old_.is_list:
                        cnt_ = None
                        if new_.cnt is not None or old_.cnt is not None:
                            cnt_ = lambda y, a=new_, b=old_, gd=gd: z3.If(gd, a.count(y), b.count(y))
                        st.env[nm_] = Coll(lambda y, a=new_, b=old_, gd=gd: z3.If(gd, a.mem(y), b.mem(y)), cnt=cnt_, is_list=old_.is_list)
                        guard_st.env[nm_] = st.env[nm_]
                    elif nm_.startswith("__"):
                        continue
                    else:
                        raise Unsupported(f"local {nm_} is rebound inside a short-circuit operand")
                if not _same_heap(guard_st.heap, st.heap):
                    raise Unsupported("state is changed inside a short-circuit operand")
            acc.append(t)
            ts = z3.simplify(t) if z3.is_expr(t) else t
            if (is_or and z3.is_true(ts)) or (not is_or and z3.is_false(ts)):
                break  # python does not evaluate the remaining operands
            guards.append(z3.Not(t) if is_or else t)
            guard_st = guard_st.fork(guards[-1])
        return z3.Or(acc) if is_or else z3.And(acc)

    def compare(self, e, st):
        if len(e.ops) != 1:
            raise Unsupported("chained comparison")
        op = e.ops[0]
        l = self.ev(e.left, st)
        r = self.ev(e.comparators[0], st)
        if isinstance(op, (ast.In, ast.NotIn)):
            m = self.member(l, r, st)
            return m if isinstance(op, ast.In) else z3.Not(m)
        if isinstance(op, (ast.Eq, ast.NotEq)):
            eq = self.equal(l, r)
            return eq if isinstance(op, ast.Eq) else z3.Not(eq)
        if isinstance(op, (ast.Is, ast.IsNot)):
            if isinstance(r, NoneV) or isinstance(l, NoneV):
                same = isinstance(l, NoneV) and isinstance(r, NoneV)
                return same if isinstance(op, ast.Is) else (not same)
            raise Unsupported("is")
        if isinstance(l, SignedV) and isinstance(op, ast.Gt) and r == 0:
            from pyvc import models
            return z3.Select(models.mu_of(self), l.obj)
        a, b = self.num(l), self.num(r)
        if isinstance(op, ast.Gt):
            return a > b
        if isinstance(op, ast.GtE):
            return a >= b
        if isinstance(op, ast.Lt):
            return a < b
        if isinstance(op, ast.LtE):
            return a <= b
        raise Unsupported("comparison")

    def num(self, v):
        if isinstance(v, bool):
            return z3.IntVal(int(v))
        if isinstance(v, int):
            return z3.IntVal(v)
        if z3.is_expr(v) and v.sort() == z3.IntSort():
            return v
        raise Unsupported(f"number expected, got {v!r}")

    def equal(self, l, r):
        if isinstance(l, MaybeType) or isinstance(r, MaybeType):
            m, o = (l, r) if isinstance(l, MaybeType) else (r, l)
            if isinstance(o, NoneV):
                return z3.Not(m.has)
            return z3.And(m.has, m.term == self.type_term(o))
        if isinstance(l, (NameV, StrLit)) and isinstance(r, (NameV, StrLit)):
            if isinstance(l, StrLit) and isinstance(r, StrLit):
                return z3.BoolVal(l.s == r.s)
            return self.name_term(l) == self.name_term(r)
        if isinstance(l, TypeV) or isinstance(r, TypeV):
            return self.type_term(l) == self.type_term(r)
        if isinstance(l, (int, bool)) and isinstance(r, (int, bool)):
            return z3.BoolVal(l == r)
        if z3.is_expr(l) or z3.is_expr(r):
            return self.num(l) == self.num(r) if not (z3.is_expr(l) and l.sort() == B) else l == r
        if isinstance(l, Coll) and isinstance(r, Coll):
            x = self.ctx.fresh_name("eq")
            return z3.ForAll([x], l.mem(x) == r.mem(x))
        raise Unsupported(f"equality of {l!r} and {r!r}")

    def member(self, l, r, st):
        if isinstance(r, StrSet):
            if isinstance(l, StrLit):
                return z3.BoolVal(l.s in r.items)
            if isinstance(l, TypeV):
                return z3.Or([l.term == self.ctx.type_lit(s) for s in r.items]) if r.items else z3.BoolVal(False)
            if isinstance(l, NameV):
                return z3.Or([l.term == self.ctx.name_lit(s) for s in r.items]) if r.items else z3.BoolVal(False)
        if isinstance(r, StrLit):
            if isinstance(l, CharV) and r.s == "0123456789":
                return self.starts_digit(l.of)
            if isinstance(l, StrLit) and isinstance(l.s, str):
                return z3.BoolVal(l.s in r.s)
        if isinstance(l, StrLit) and l.s == "." and isinstance(r, NameV):
            return self.has_dot(r.term)
        if isinstance(r, Coll):
            return r.mem(self.name_term(l))
        if isinstance(r, list):
            return z3.Or([self.equal(l, x) for x in r]) if r else z3.BoolVal(False)
        if isinstance(r, ObjRef) and r.kind in ("Circuit", "DiGraph"):
            return st.g(r).node(self.name_term(l))
        if isinstance(r, GraphNodesView):
            return st.g(r.g).node(self.name_term(l))
        if isinstance(r, NodeAttrView):
            if isinstance(l, StrLit) and l.s == "type":
                return z3.Select(st.g(r.g).hasty, self.name_term(r.n))
            if isinstance(l, StrLit) and l.s == "output":
                return z3.Select(st.g(r.g).hasout, self.name_term(r.n))
        if isinstance(r, ObjRef) and r.kind == "bbdict":
            return z3.Select(st.heap[r.oid].dom, self.name_term(l))
        if isinstance(r, DictV):
            return r.dom(self.name_term(l))
        raise Unsupported(f"membership {l!r} in {r!r}")

    def binop(self, e, st):
        l = self.ev(e.left, st)
        r = self.ev(e.right, st)
        op = e.op
        if isinstance(l, Opaque) or isinstance(r, Opaque):
            return Opaque("text")
        if isinstance(l, StrLit) and isinstance(r, StrLit) and isinstance(op, ast.Add):
            return StrLit(l.s + r.s)
        if isinstance(l, LitColl) and isinstance(r, LitColl) and isinstance(op, ast.Add):
            return l.union(r)
        if isinstance(op, ast.Add):
            if isinstance(l, StrSet) and isinstance(r, StrSet):
                return StrSet(l.items + r.items)
            if isinstance(l, (Coll, list)) and isinstance(r, (Coll, list)):
                a, b = self.as_coll(l), self.as_coll(r)
                if a.elems is not None and b.elems is not None:
                    return Coll.explicit(a.elems + b.elems)
                return Coll(lambda x: z3.Or(a.mem(x), b.mem(x)), cnt=lambda x: a.count(x) + b.count(x), is_list=True)
            if isinstance(l, (StrLit, NameV)) and isinstance(r, (StrLit, NameV)):
                if isinstance(l, StrLit) and isinstance(r, StrLit):
                    return StrLit(l.s + r.s)
                parts, holes = [""], []
                for v in (l, r):
                    if isinstance(v, StrLit):
                        parts[-1] += v.s
                    else:
                        holes.append(v.term)
                        parts.append("")
                return NameV(self.ctx.template(parts)(*holes))
            return self.num(l) + self.num(r)
        if isinstance(op, ast.Sub):
            if isinstance(l, LitV) and l.pos and r == 1:
                return IndexV(l.obj)
            if isinstance(l, Coll) and isinstance(r, Coll):
                return Coll(lambda x: z3.And(l.mem(x), z3.Not(r.mem(x))))
            return self.num(l) - self.num(r)
        if isinstance(op, ast.Mult):
            return self.num(l) * self.num(r)
        if isinstance(op, ast.LShift):
            if isinstance(r, int) and r == 1:
                return self.num(l) * 2
            raise Unsupported("shift")
        if isinstance(op, ast.BitOr):
            a, b = self.as_coll(l), self.as_coll(r)
            return Coll(lambda x: z3.Or(a.mem(x), b.mem(x)))
        if isinstance(op, ast.BitAnd):
            a, b = self.as_coll(l), self.as_coll(r)
            return Coll(lambda x: z3.And(a.mem(x), b.mem(x)))
        raise Unsupported(f"binary operator {type(op).__name__}")

    def attribute(self, e, st):
        base = self.ev(e.value, st)
        a = e.attr
        if isinstance(base, ObjRef) and base.kind == "Circuit":
            rec = st.heap[base.oid]
            if a == "graph":
                return ObjRef(rec.graph, "DiGraph")
            if a == "blackboxes":
                return ObjRef(rec.bbs, "bbdict")
            if a == "name":
                return rec.name
            return BoundMethod(base, a)
        if isinstance(base, ObjRef) and base.kind == "DiGraph":
            if a == "nodes":
                return GraphNodesView(base)
            if a == "edges":
                g = st.g(base)
                return PairSet(lambda u, v, g=g: g.edge(u, v))
            return BoundMethod(base, a)
        if isinstance(base, ModuleV):
            if base.name in ("cg", "circuitgraph") and a in ("Circuit", "BlackBox", "lint", "tx", "sat", "props", "utils", "logic", "io"):
                return ModuleV("cg." + a)
            return ModuleV(base.name + "." + a)
        return BoundMethod(base, a)

    def subscript(self, e, st):
        base = self.ev(e.value, st)
        if isinstance(base, ModelV):
            idx = self.ev(e.slice, st)
            if isinstance(idx, IndexV):
                self.split_raise(st, z3.Not(z3.Select(base.men, idx.obj)), "IndexError")
                return SignedV(idx.obj)
            raise Unsupported("model index")
        if isinstance(base, ErrList):
            return base
        if isinstance(base, Opaque):
            return Opaque("text")
        if isinstance(base, GraphNodesView):
            n = self.ev(e.slice, st)
            nt = self.name_term(n)
            g = st.g(base.g)
            self.split_raise(st, z3.Not(g.node(nt)), "KeyError")
            return NodeAttrView(base.g, NameV(nt))
        if isinstance(base, NodeAttrView):
            key = self.ev(e.slice, st)
            g = st.g(base.g)
            n = self.name_term(base.n)
            if isinstance(key, StrLit) and key.s == "type":
                self.split_raise(st, z3.Not(z3.Select(g.hasty, n)), "KeyError")
                return TypeV(z3.Select(g.ty, n))
            if isinstance(key, StrLit) and key.s == "output":
                self.split_raise(st, z3.Not(z3.Select(g.hasout, n)), "KeyError")
                return z3.Select(g.out, n)
            raise Unsupported("node attribute")
        if isinstance(base, NameV):
            idx = self.ev(e.slice, st)
            if idx == 0:
                self.split_raise(st, self.str_empty(base.term), "IndexError")
                return CharV(base.term)
            raise Unsupported("string index")
        if isinstance(base, ObjRef) and base.kind == "bbdict":
            k = self.name_term(self.ev(e.slice, st))
            rec = st.heap[base.oid]
            self.split_raise(st, z3.Not(z3.Select(rec.dom, k)), "KeyError")
            return BBVal(z3.Select(rec.val, k))
        if isinstance(base, DictV):
            kv = self.ev(e.slice, st)
            if isinstance(kv, TypeV) and base.items is not None and getattr(base, "str_items", None) is not None \
                    and all(a in self.ctx.tval and b in self.ctx.tval for a, b in base.str_items):
                # a literal {type name: type name} table indexed with a node type
                t = kv.term
                self.split_raise(st, z3.Not(z3.Or([t == self.ctx.tval[a] for a, _ in base.str_items])), "KeyError")
                r = self.ctx.tval[base.str_items[-1][1]]
                for a, b in reversed(base.str_items[:-1]):
                    r = z3.If(t == self.ctx.tval[a], self.ctx.tval[b], r)
                return TypeV(r)
            k = self.name_term(kv)
            self.split_raise(st, z3.Not(base.dom(k)), "KeyError")
            if base.items is not None:
                raise Unsupported("explicit dict lookup")
            return base.val(k)
        if isinstance(base, Coll) and base.is_list:
            idx = self.ev(e.slice, st)
            if base.elems is not None and isinstance(idx, int):
                self.split_raise(st, z3.BoolVal(not (-len(base.elems) <= idx < len(base.elems))), "IndexError")
                return NameV(base.elems[idx])
            if isinstance(idx, int) and idx in (-1, -2) and base.cnt is None:
                # list(<set>): distinct elements in an arbitrary order; the last two positions are two distinct members
                if not hasattr(base, "_tail"):
                    base._tail = (self.ctx.fresh_name("last"), self.ctx.fresh_name("last2"))
                    a_, b_ = base._tail
                    x_, y_ = self.ctx.fresh_name("tx"), self.ctx.fresh_name("ty")
                    two = z3.Exists([x_, y_], z3.And(x_ != y_, base.mem(x_), base.mem(y_)))
                    base._tail_facts = [z3.Implies(self.truthy(base), base.mem(a_)), z3.Implies(two, z3.And(base.mem(b_), a_ != b_))]
                for f_ in base._tail_facts:  # (the list object may be shared by several paths)
                    if not any(f_.eq(h) for h in st.pc[-40:]):
                        st.pc.append(f_)
                x_, y_ = self.ctx.fresh_name("tx"), self.ctx.fresh_name("ty")
                if idx == -1:
                    self.split_raise(st, z3.Not(self.truthy(base)), "IndexError")
                    return NameV(base._tail[0])
                self.split_raise(st, z3.Not(z3.Exists([x_, y_], z3.And(x_ != y_, base.mem(x_), base.mem(y_)))), "IndexError")
                return NameV(base._tail[1])
            raise Unsupported("list index")
        if isinstance(base, SplitV):
            idx = self.ev(e.slice, st)
            if idx == 0:
                return NameV(self.dot_prefix(base.of))
            if idx == -1:
                return NameV(self.dot_suffix(base.of))
        raise Unsupported(f"subscript of {base!r}")

    # ------------------------------------------------------------------ comprehensions
    def comprehension(self, e, st):
        if len(e.generators) != 1:
            if isinstance(e, ast.GeneratorExp) and len(e.generators) == 2 and isinstance(e.elt, ast.Tuple):
                g0, g1 = e.generators
                a = self.as_coll(self.ev(g0.iter, st))
                b = self.as_coll(self.ev(g1.iter, st))
                return PairSet(lambda u, v: z3.And(a.mem(u), b.mem(v)))
            raise Unsupported("nested comprehension")
        gen = e.generators[0]
        it = self.ev(gen.iter, st)
        if isinstance(it, (list, StrSet)) or (isinstance(it, Coll) and it.elems is not None):
            items = [NameV(t) for t in it.elems] if isinstance(it, Coll) else ([StrLit(x) for x in it.items] if isinstance(it, StrSet) else it)
            out = []
            for item in items:
                st2 = st.fork()
                self.assign(gen.target, item, st2)
                conds = [self.truthy(self.ev(c, st2)) for c in gen.ifs]
                if conds and not all(z3.is_true(z3.simplify(c)) for c in conds):
                    raise Unsupported("filtered comprehension over explicit list")
                out.append(self.ev(e.elt, st2))
            if all(isinstance(x, (NameV, StrLit)) for x in out):
                return Coll.explicit([self.name_term(x) for x in out], is_list=not isinstance(e, ast.SetComp))
            return out
        val, cond, scope = self.iter_member(it, st)
        # obligations of the element/filter expressions are generated once for an arbitrary element
        st1 = st.fork(cond)
        self.assign(gen.target, val, st1)
        self.ctx.scope_vars.extend(scope)
        try:
            guards = []
            gst = st1
            raises = []
            base_pc = len(st1.pc)
            for c in gen.ifs:
                # a filter that may raise: the raising conditions of the arbitrary element are recorded (not branched on) and
                # the whole comprehension raises iff SOME element raises (decided once, at the outer state, below).
                # Branching inside a filter (a per-element decision) stays outside the subset.
                saved_sr, saved_ch = self.__dict__.get("split_raise"), self.__dict__.get("choice")

                def _rec(stx, rc, exc, _raises=raises):
                    if not self.feasible(stx, rc):  # cannot raise here (pc => not rc): nothing to decide
                        return
                    _raises.append((z3.And(list(stx.pc[base_pc:]) + [rc]), exc))
                    stx.pc.append(z3.Not(rc))

                def _nochoice(stx, cc):
                    raise Unsupported(f"comprehension filter branches per element (statement #{e.lineno})")
                self.split_raise, self.choice = _rec, _nochoice
                try:
                    t = self.truthy(self.ev(c, gst))
                except _Split as sp:
                    raise Unsupported(f"comprehension filter may raise {sp.exc} (statement #{e.lineno})")
                finally:
                    for k_, v_ in (("split_raise", saved_sr), ("choice", saved_ch)):
                        if v_ is None:
                            self.__dict__.pop(k_, None)
                        else:
                            self.__dict__[k_] = v_
                guards.append(t)
                gst = gst.fork(t)
            if raises:
                if len({x_[1] for x_ in raises}) != 1:
                    raise Unsupported(f"comprehension filter may raise different exceptions (statement #{e.lineno})")
                x = scope[0]
                some = z3.Exists([x], z3.And(cond, z3.Or([r_[0] for r_ in raises])))
                self.split_raise(st, some, raises[0][1])
            try:
                elt = self.ev(e.elt, gst)
            except _Split as sp:
                # the whole comprehension raises when some element does
                x = scope[0]
                full = z3.And([cond] + guards + [sp.cond])
                raise _Split(z3.Exists([x], full), sp.exc)
        finally:
            del self.ctx.scope_vars[len(self.ctx.scope_vars) - len(scope):]
        own = {n_.id for n_ in ast.walk(gen.target) if isinstance(n_, ast.Name)}  # the comprehension's own variables
        if not _same_heap(gst.heap, st.heap) or any(gst.env.get(k) is not v for k, v in st.env.items() if k not in own):
            raise Unsupported("a comprehension element or filter has a side effect")
        x = scope[0]
        guard = z3.And([cond] + guards)
        if isinstance(elt, NameV) and elt.term.eq(x):
            return Coll(lambda y, g=guard, x=x: z3.substitute(g, (x, y)), is_list=not isinstance(e, ast.SetComp))
        if isinstance(elt, NameV):
            t = elt.term

            def mem(y, g=guard, t=t, x=x):
                z = self.ctx.fresh_name("img")
                return z3.Exists([z], z3.And(z3.substitute(g, (x, z)), y == z3.substitute(t, (x, z))))
            return Coll(mem, is_list=not isinstance(e, ast.SetComp))
        if isinstance(elt, LitV):
            ob = elt.obj

            def mk(sign_ok, g=guard, ob=ob, x=x):
                def pred(o):
                    if not sign_ok:
                        return z3.BoolVal(False)
                    z = self.ctx.fresh_name("lit")
                    return z3.Exists([z], z3.And(z3.substitute(g, (x, z)), o == z3.substitute(ob, (x, z))))
                return pred
            return LitColl(mk(elt.pos), mk(not elt.pos))
        raise Unsupported("comprehension element")

    def dictcomp(self, e, st):
        gen = e.generators[0]
        it = self.ev(gen.iter, st)
        val, cond, scope = self.iter_member(it, st)
        st1 = st.fork(cond)
        self.assign(gen.target, val, st1)
        k = self.ev(e.key, st1)
        v = self.ev(e.value, st1)
        x = scope[0]
        if isinstance(k, NameV) and k.term.eq(x) and isinstance(v, NameV) and not gen.ifs:
            t = v.term
            return DictV(lambda y, c=cond, x=x: z3.substitute(c, (x, y)), lambda y, t=t, x=x: NameV(z3.substitute(t, (x, y))))
        if isinstance(k, NameV) and k.term.eq(x) and z3.is_expr(v) and v.sort() == B and not gen.ifs:
            return DictV(lambda y, c=cond, x=x: z3.substitute(c, (x, y)), lambda y, t=v, x=x: z3.substitute(t, (x, y)), vkind="bool")
        if isinstance(k, NameV) and isinstance(v, NameV) and not gen.ifs and z3.is_app(k.term):
            # {f"{a}.{x}": value(x) for x in S}: the key is a name template, injective in the loop variable, so the
            # loop variable is recovered from a key with the template's inverse
            f = k.term.decl()
            parts = next((p for p, g in self.ctx.templates.items() if g.eq(f)), None)
            args = list(k.term.children())
            if parts is not None and args and args[-1].eq(x) and not any(_occurs(x, [a]) for a in args[:-1]):
                inv = self.ctx.template_inverse[parts]
                back = lambda y, a=args[:-1]: inv(*(a + [y]))
                dom = lambda y, a=args[:-1], c=cond: z3.And(y == f(*(a + [back(y)])), z3.substitute(c, (x, back(y))))
                val = lambda y, t=v.term: NameV(z3.substitute(t, (x, back(y))))
                return DictV(dom, val)
        raise Unsupported("dict comprehension")

    # ------------------------------------------------------------------ calls
    def call(self, e, st):
        f = e.func
        # builtins
        if isinstance(f, ast.Name):
            nm = f.id
            if nm == "isinstance":
                v = self.ev(e.args[0], st)
                cls = e.args[1].id if isinstance(e.args[1], ast.Name) else None
                if cls == "str":
                    return isinstance(v, (NameV, StrLit))
                if cls == "dict":
                    return isinstance(v, DictV)
                raise Unsupported("isinstance")
            if nm == "len":
                return self.card(self.ev(e.args[0], st))
            if nm == "set":
                if not e.args:
                    return Coll(lambda x: z3.BoolVal(False), elems=[], is_list=False)
                v = self.ev(e.args[0], st)
                if isinstance(v, GraphNodesView):
                    g = st.g(v.g)
                    return Coll(lambda x, g=g: g.node(x))
                if isinstance(v, PairSet):
                    return v
                c = self.as_coll(v)
                return Coll(c.mem, elems=c.elems, is_list=False)
            if nm == "list":
                v = self.ev(e.args[0], st)
                c = self.as_coll(v)
                return Coll(c.mem, cnt=None, elems=c.elems, is_list=True)
            if nm in ("ValueError", "KeyError", "NotImplementedError", "OSError", "ImportError"):
                return Opaque(nm)
            if nm == "Circuit":
                from pyvc import models
                return models.new_circuit(self, st, e)
            if nm in ("IDPool", "CNF"):
                from pyvc import models
                models.used("pysat." + nm)
                rec = {"kind": nm, "sat": z3.BoolVal(True), "men": z3.K(self.ctx.Obj, z3.BoolVal(False))}
                return ObjRef(alloc(st, rec, nm.lower()), nm)
            if nm in st.env and isinstance(st.env[nm], ClassV):
                from pyvc import models
                return models.instantiate(self, st.env[nm], e, st)
            if nm in st.env and isinstance(st.env[nm], FuncV):
                return self.call_local(st.env[nm], e, st)
            if nm in self.summaries:
                return self.invoke(self.summaries[nm], None, e, st)
            raise Unsupported(f"call of {nm} (statement #{e.lineno})")
        if isinstance(f, ast.Attribute):
            base = self.ev(f.value, st)
            return self.method(base, f.attr, e, st)
        raise Unsupported("call")

    def args_of(self, e, st):
        args = [self.ev(a, st) for a in e.args]
        kwargs = {}
        for k in e.keywords:
            v = self.ev(k.value, st)
            if k.arg is None:
                if isinstance(v, DictV) and v.items == []:
                    continue  # **{}
                raise Unsupported("**kwargs")
            kwargs[k.arg] = v
        return args, kwargs

    def invoke(self, summary, recv, e, st):
        args, kwargs = self.args_of(e, st)
        return summary(self, st, recv, args, kwargs, e)

    def call_local(self, fv, e, st):
        """nested def: inlined (closure variables resolved lexically).  Its raising paths become split points;
        exactly one normal path may remain."""
        args, kwargs = self.args_of(e, st)
        params = [a.arg for a in fv.node.args.args]
        st2 = st.fork()
        saved = dict(st2.env)
        for p, a in zip(params, args):
            st2.env[p] = a
        base = len(st.pc)
        normals = []
        for o in self.run_block(fv.node.body, st2):
            extra = o.st.pc[base:]
            cond = z3.And(extra) if extra else z3.BoolVal(True)
            if o.kind == "raise":
                self.split_raise(st, cond, o.exc)
            elif o.kind in ("normal", "return"):
                normals.append(o)
            else:
                raise Unsupported("control flow out of nested function")
        if len(normals) != 1:
            if not normals:
                raise _Split(z3.BoolVal(True), "unreachable", st, certain=True)
            raise Unsupported("nested function with several normal paths")
        o = normals[0]
        env = dict(o.st.env)
        for p in params:
            if p in saved:
                env[p] = saved[p]
            else:
                env.pop(p, None)
        st.env, st.heap = env, o.st.heap
        st.pc.extend(o.st.pc[len(st.pc):])
        return o.value if o.kind == "return" else NONE

    def method(self, base, name, e, st):
        from pyvc import models
        return models.method(self, base, name, e, st)


class MaybeType:
    """result of attrs.get("type"): the type when the attribute exists, else None"""

    def __init__(self, has, term):
        self.has, self.term = has, term


class LitV:
    """a DIMACS literal: +-id(obj) of an IDPool; only (object, sign) matters (ids are injective, see models.IDPool)"""

    def __init__(self, obj, pos=True):
        self.obj, self.pos = obj, pos


class LitColl:
    """a clause under construction: literal sets given by predicates over Obj"""

    def __init__(self, pos, neg, lits=None):
        self.pos, self.neg = pos, neg  # callables Obj-term -> Bool
        self.lits = lits               # explicit literal list when the clause was written out literal by literal

    @staticmethod
    def of(lits):
        lits = list(lits)
        return LitColl(lits=lits, pos=lambda o, L=lits: z3.Or([o == l.obj for l in L if l.pos]) if any(l.pos for l in L) else z3.BoolVal(False),
                       neg=lambda o, L=lits: z3.Or([o == l.obj for l in L if not l.pos]) if any(not l.pos for l in L) else z3.BoolVal(False))

    def union(self, other):
        return LitColl(lambda o: z3.Or(self.pos(o), other.pos(o)), lambda o: z3.Or(self.neg(o), other.neg(o)))


class ClassV:
    def __init__(self, name):
        self.name = name


class ModelV:
    """result of solver.get_model(): a list m with m[i-1] == +-i for every variable i that occurs in a clause"""

    def __init__(self, men):
        self.men = men


class IndexV:
    """the integer id(obj) - 1"""

    def __init__(self, obj):
        self.obj = obj


class SignedV:
    """the integer +-id(obj), positive iff mu[obj]"""

    def __init__(self, obj):
        self.obj = obj


class CharV:
    def __init__(self, of):
        self.of = of


class SplitV:
    def __init__(self, of):
        self.of = of


class BBVal:
    def __init__(self, term):
        self.term = term


class BBItems:
    def __init__(self, oid):
        self.oid = oid


class _Split(Exception):
    def __init__(self, cond, exc, st=None, certain=False):
        self.cond, self.exc, self.st, self.certain = cond, exc, st, certain


class _Multi(Exception):
    def __init__(self, outs):
        self.outs = outs


def _consts_of(f):
    seen, out, todo = set(), [], [f]
    while todo:
        t = todo.pop()
        if t.get_id() in seen:
            continue
        seen.add(t.get_id())
        if z3.is_const(t) and t.decl().kind() == z3.Z3_OP_UNINTERPRETED:
            out.append(t)
        elif z3.is_app(t):
            todo.extend(t.children())
        elif z3.is_quantifier(t):
            todo.append(t.body())
    return out


def _is_fresh_iter(v):
    return str(v).startswith("it!")


def _occurs(v, formulas):
    for f in formulas:
        if any(v.eq(c) for c in _consts_of(f)):
            return True
    return False


def _same_heap(h1, h2):
    return set(h1) == set(h2) and all(h1[k] is h2[k] for k in h1)


def _assigned_names(loop):
    """names bound inside the loop by assignment, for-targets or nested def"""
    return {n.id for n in ast.walk(loop) if isinstance(n, ast.Name) and isinstance(n.ctx, ast.Store)} | \
           {n.name for n in ast.walk(loop) if isinstance(n, (ast.FunctionDef, ast.ClassDef))}


def _same_env(e1, e2, loop):
    names = _assigned_names(loop)
    for k in set(e1) | set(e2):
        if k in names or k.startswith("__"):
            continue
        if e1.get(k) is not e2.get(k):
            return False
    return True
