"""Counter-model -> concrete input -> the real code.

When an obligation is refuted over a finite universe of names, z3's model is a small circuit plus arguments.  This
module turns it into the case format of the property's bounded module (bounded/cNN.py) and runs that module's
`run_case` on the REAL function: if the independent oracle of the bounded module reports a failure, the obligation's
counterexample is confirmed on the code and becomes the replay file of the violation.  Anything that cannot be
concretised faithfully (name strings that would have to satisfy template / dot constraints we cannot solve, engine
errors) simply yields no replay -- the violation is then reported with `no-failing-input-found`."""
import importlib
import itertools

import z3

from pyvc.exec import Coll
from pyvc.engine import NameV, StrLit


def _ev(m, t):
    return m.eval(t, model_completion=True)


def concretise(ctx, ex, model, inputs):
    U = list(ctx.name_consts)
    names = {}
    for s, c in ctx.lits.items():
        v = str(_ev(model, c))
        if names.get(v, s) != s:
            return None
        names[v] = s
    # templates: compose strings where the arguments are named
    for _ in range(3):
        for parts, f in ctx.templates.items():
            holes = len(parts) - 1
            for args in itertools.product(U, repeat=holes):
                if not all(str(a) in names for a in args):
                    continue
                w = str(_ev(model, f(*args)))
                s = parts[0]
                for a, q in zip(args, parts[1:]):
                    s += names[str(a)] + q
                if names.get(w, s) != s:
                    return None  # two different texts for one name: the finite model is not a string model
                names[w] = s
    used = set(names.values())
    k = 0
    for u in U:
        if str(u) in names:
            continue
        if ex is not None and z3.is_true(_ev(model, ex.str_empty(u))):
            s = ""
        elif ex is not None and z3.is_true(_ev(model, ex.starts_digit(u))):
            s = f"9n{k}"
        else:
            s = f"n{k}"
        k += 1
        if s in used:
            return None
        if ex is not None and z3.is_true(_ev(model, ex.has_dot(u))):
            return None  # a dotted name with unknown parts: not concretised
        used.add(s)
        names[str(u)] = s
    # the string predicates must agree with the chosen texts
    if ex is not None:
        for u in U:
            s = names[str(u)]
            if z3.is_true(_ev(model, ex.str_empty(u))) != (s == "") or z3.is_true(_ev(model, ex.starts_digit(u))) != s[:1].isdigit():
                return None
            if z3.is_true(_ev(model, ex.has_dot(u))) != ("." in s):
                return None
    tname = {str(v): k_ for k_, v in ctx.tval.items()}
    out = {"circuits": {}, "args": {}}
    for tag, (g, bb) in inputs.get("circuits", {}).items():
        nodes, edges, bbs = [], [], {}
        live = [u for u in U if z3.is_true(_ev(model, g.node(u)))]
        for u in live:
            t = None
            if z3.is_true(_ev(model, z3.Select(g.hasty, u))):
                t = tname.get(str(_ev(model, z3.Select(g.ty, u))), "foo")
                if t.startswith("<"):
                    t = "foo"
            o = None
            if z3.is_true(_ev(model, z3.Select(g.hasout, u))):
                o = z3.is_true(_ev(model, z3.Select(g.out, u)))
            nodes.append([names[str(u)], t, o])
        for u in U:
            for v in U:
                if z3.is_true(_ev(model, g.edge(u, v))):
                    if u not in live or v not in live:
                        return None
                    edges.append([names[str(u)], names[str(v)]])
        for u in U:
            if z3.is_true(_ev(model, z3.Select(bb.dom, u))):
                b = z3.Select(bb.val, u)
                ins = [names[str(p)] for p in U if z3.is_true(_ev(model, ctx.bb_in(b, p)))]
                outs = [names[str(p)] for p in U if z3.is_true(_ev(model, ctx.bb_out(b, p)))]
                bbs[names[str(u)]] = ["bb", ins, outs]
        out["circuits"][tag] = {"name": "c", "nodes": nodes, "edges": edges, "bbs": bbs}
    for tag, v in inputs.get("args", {}).items():
        if isinstance(v, NameV):
            out["args"][tag] = names[str(_ev(model, v.term))]
        elif isinstance(v, StrLit):
            out["args"][tag] = v.s
        elif isinstance(v, Coll):
            items = []
            for u in U:
                if z3.is_true(_ev(model, v.mem(u))):
                    n = 1
                    if v.is_list and v.cnt is not None:
                        n = max(1, min(3, _ev(model, v.cnt(u)).as_long()))
                    items += [names[str(u)]] * n
            out["args"][tag] = items if v.is_list else sorted(set(items))
            out["args"][tag + "__is_set"] = not v.is_list
        elif z3.is_expr(v) and v.sort() == z3.BoolSort():
            out["args"][tag] = z3.is_true(_ev(model, v))
        elif z3.is_expr(v) and v.sort() == ctx.T:
            t = tname.get(str(_ev(model, v)), "foo")
            out["args"][tag] = "foo" if t.startswith("<") else t
    return out


def _arg(conc, tag):
    v = conc["args"].get(tag)
    return v


def to_case(task, conc):
    """(property module name, case) for the bounded module that states the same contract, or None"""
    a = conc["args"]
    c = conc["circuits"].get("self")
    if c is None:
        return None
    if task in ("C16/remove_unloaded",):
        return "c16", {"c": c, "inputs": bool(a.get("inputs", False))}
    if task == "C20/lint":
        return "c20", {"kind": "graph", "c": c}
    ops = {"connect": lambda: ["connect", a.get("us"), a.get("vs")], "disconnect": lambda: ["disconnect", a.get("us"), a.get("vs")],
           "remove": lambda: ["remove", a.get("ns")], "set_output": lambda: ["set_output", a.get("ns"), bool(a.get("flag", a.get("output", True)))]}
    for op, mk in ops.items():
        if task in (f"layer1/Circuit.{op}", f"C07/{op}") or (op == "set_output" and task == "C07/set_output[list] on the body"):
            o = mk()
            if any(x is None for x in o[1:]):
                return None
            return "c07", {"seed_cd": c, "removed_pins": [], "ops": [o]}
    if task in ("layer1/Circuit.add[default]", "layer1/Circuit.add[uid]", "C07/add[default]", "C07/add[uid]"):
        if a.get("n") is None or a.get("node_type") is None:
            return None
        fi, fo = a.get("fanin"), a.get("fanout")
        return "c07", {"seed_cd": c, "removed_pins": [], "ops": [["add", a["n"], a["node_type"], fi, fo, task.endswith("[uid]")]]}
    return None


def replay(task, prop, ctx, ex, model, inputs):
    """returns a bounded case (for module bounded.<prop>) whose run on the real code fails, or None"""
    try:
        conc = concretise(ctx, ex, model, inputs)
        if conc is None:
            return None
        mc = to_case(task, conc)
        if mc is None or mc[0] != prop.lower():
            return None
        mod = importlib.import_module(f"bounded.{mc[0]}")
        r = mod.run_case(mc[1])
        if r.get("failures"):
            return {"case": mc[1], "failures": [f["kind"] for f in r["failures"]][:3]}
    except Exception:  # noqa: anything unexpected means: no replay
        return None
    return None
