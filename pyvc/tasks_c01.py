"""C01: sat.cnf -- the clauses emitted for every node are equivalent to its gate equation, for an arbitrary
assignment mu of the pool objects (so: for all assignments):
   soundness     Sat(formula)(mu)  =>  every node of c satisfies gateok under mu
   completeness  gateok everywhere and the auxiliaries carry their witness values  =>  Sat(formula)(mu)
Fan-in is an arbitrary finite set (no arity bound) for and/nand/or/nor; parity gates are proved for fan-in 1..2
(the >=3 chain is covered by the bounded check only: see DESIGN)."""
import z3

from contracts import layer1
from pyvc import engine, models, spec, verify
from pyvc.engine import State
from pyvc.exec import Exec

F = "circuitgraph/sat.py"


def gateok(ctx, ex, g, mu, n):
    """the gate equation of node n (DESIGN 4.3) under the assignment mu (restricted to node names)"""
    T = ctx.tval
    O = ctx.Obj
    val = lambda x: z3.Select(mu, O.nm(x))
    f, a, b = ctx.fresh_name("gf"), ctx.fresh_name("ga"), ctx.fresh_name("gb")
    t = z3.Select(g.ty, n)
    fi = lambda x: g.edge(x, n)
    all_ = z3.ForAll([f], z3.Implies(fi(f), val(f)))
    any_ = z3.Exists([f], z3.And(fi(f), val(f)))
    one = lambda body: z3.ForAll([a], z3.Implies(z3.And(fi(a), z3.ForAll([f], z3.Implies(fi(f), f == a))), body(a)))
    two = lambda body: z3.ForAll([a, b], z3.Implies(z3.And(a != b, fi(a), fi(b), z3.ForAll([f], z3.Implies(fi(f), z3.Or(f == a, f == b)))), body(a, b)))
    return z3.And(
        z3.Implies(t == T["and"], val(n) == all_), z3.Implies(t == T["nand"], val(n) == z3.Not(all_)),
        z3.Implies(t == T["or"], val(n) == any_), z3.Implies(t == T["nor"], val(n) == z3.Not(any_)),
        z3.Implies(z3.Or(t == T["buf"], t == T["bb_input"]), one(lambda p: val(n) == val(p))),
        z3.Implies(t == T["not"], one(lambda p: val(n) == z3.Not(val(p)))),
        z3.Implies(t == T["xor"], z3.And(one(lambda p: val(n) == val(p)), two(lambda p, q: val(n) == z3.Xor(val(p), val(q))))),
        z3.Implies(t == T["xnor"], z3.And(one(lambda p: val(n) == z3.Not(val(p))), two(lambda p, q: val(n) == z3.Not(z3.Xor(val(p), val(q)))))),
        z3.Implies(t == T["0"], z3.Not(val(n))), z3.Implies(t == T["1"], val(n)))


def witness(ctx, mu):
    """values of the auxiliary objects that make the encoding satisfiable (given in the sidecar, DESIGN 8 C01)"""
    O = ctx.Obj
    p, q = ctx.fresh("wp", O), ctx.fresh("wq", O)
    n = ctx.fresh_name("wn")
    return z3.And(z3.ForAll([p, q], z3.Select(mu, O.xorpair(p, q)) == z3.Xor(z3.Select(mu, p), z3.Select(mu, q))),
                  z3.ForAll([n], z3.Select(mu, O.xorinv(n)) == z3.Not(z3.Select(mu, O.nm(n)))))


def cnf_task(ctx):
    fn, seg, sha = engine.find_function(F, "cnf")
    T = ctx.tval
    H = {}
    GOOD = ["and", "nand", "or", "nor", "not", "buf", "bb_input", "xor", "xnor", "0", "1", "bb_output", "input"]

    def node_loop(ex, s, st, it, ordinal):
        c, formula = H["c"], st.env["formula"]
        mu = models.mu_of(ex)
        g = st.g(c)
        def inv(ex, stx, done):
            sat = stx.heap[formula.oid]["sat"]
            m = ctx.fresh_name("im")
            allok = z3.ForAll([m], z3.Implies(done.mem(m), gateok(ctx, ex, g, mu, m)))
            return [("sound", z3.Implies(sat, allok)),
                    ("complete", z3.Implies(z3.And(witness(ctx, mu), allok), sat)),
                    ("every-processed-node-occurs-in-a-clause", z3.ForAll([m], z3.Implies(done.mem(m), z3.Select(stx.heap[formula.oid]["men"], ctx.Obj.nm(m))))),
                    ("types-encodable", z3.ForAll([m], z3.Implies(done.mem(m), z3.Or([z3.Select(g.ty, m) == T[k] for k in GOOD]))))]
        return ex.invariant_for(s, st, it, ordinal, inv, mod_objs=[formula], label="nodes")

    def chain_loop(ex, s, st, it, ordinal):
        # variant restriction: parity gates have at most two drivers, so the chain loop never runs
        def inv(ex, stx):
            nets = stx.env["nets"]
            return [("at-most-two-operands", ex.card(nets) <= 2)]
        return ex.invariant_while(s, st, ordinal, inv, mod_locals=[], label="parity-chain(fan-in<=2)")

    ex = Exec(ctx, summaries=dict(layer1.SUMMARIES), module_consts=engine.module_constants("circuitgraph/circuit.py"), fname="cnf")
    loops = sorted([n for n in __import__("ast").walk(fn) if isinstance(n, (__import__("ast").For, __import__("ast").While))], key=lambda n: (n.lineno, n.col_offset))
    ex.loop_specs = {}
    for k, n in enumerate(loops):
        if k == 0:
            ex.loop_specs[k + 1] = node_loop
        elif isinstance(n, __import__("ast").While):
            ex.loop_specs[k + 1] = chain_loop
    st0 = State({}, {}, [])
    c = verify.mk_circuit(ex, st0, "c")
    H["c"] = c
    g = st0.g(c)
    x, y, z = ctx.fresh_name("rx"), ctx.fresh_name("ry"), ctx.fresh_name("rz")
    st0.pc.append(z3.ForAll([x], z3.Implies(g.node(x), z3.Select(g.hasty, x))))
    tin = lambda t, L: z3.Or([t == T[k] for k in L])
    ty = lambda n: z3.Select(g.ty, n)
    # domain (lint-clean circuits): single-input types have at most one driver; parity gates are driven; and the
    # variant restriction of this proof: parity gates have at most two drivers
    st0.pc.append(z3.ForAll([x, y, z], z3.Implies(z3.And(g.edge(x, z), g.edge(y, z), tin(ty(z), ["buf", "not", "bb_input"])), x == y)))
    st0.pc.append(z3.ForAll([z], z3.Implies(z3.And(g.node(z), tin(ty(z), ["xor", "xnor"])), z3.Exists([x], g.edge(x, z)))))
    w = ctx.fresh_name("rw")
    st0.pc.append(z3.ForAll([x, y, w, z], z3.Implies(z3.And(g.edge(x, z), g.edge(y, z), g.edge(w, z), tin(ty(z), ["xor", "xnor"])), z3.Or(x == y, x == w, y == w))))
    outs = verify.bind_and_run(ex, fn, st0, {"c": c})
    mu = models.mu_of(ex)
    m = ctx.fresh_name("pm")
    consistent = z3.ForAll([m], z3.Implies(g.node(m), gateok(ctx, ex, g, mu, m)))
    n_ret = 0
    for o in outs:
        i = o.st.pathid()
        if o.kind == "raise":
            bad = z3.Exists([m], z3.And(g.node(m), z3.Not(z3.Or([ty(m) == T[k] for k in GOOD]))))
            ctx.oblige(f"cnf/post-exc#{i}:ValueError-only-for-an-unencodable-type", o.st.pc, z3.And(z3.BoolVal(o.exc == "ValueError"), bad), "post-exc")
        else:
            n_ret += 1
            formula = o.value.items[0]
            sat = o.st.heap[formula.oid]["sat"]
            ctx.oblige(f"cnf/post#{i}:soundness(Sat=>consistent)", o.st.pc, z3.Implies(sat, consistent), "post")
            ctx.oblige(f"cnf/post#{i}:every-node-variable-occurs-in-a-clause(model-index-in-range)", o.st.pc,
                       z3.ForAll([m], z3.Implies(g.node(m), z3.Select(o.st.heap[formula.oid]["men"], ctx.Obj.nm(m)))), "post")
            ctx.oblige(f"cnf/post#{i}:completeness(consistent+witness=>Sat)", o.st.pc, z3.Implies(z3.And(witness(ctx, mu), consistent), sat), "post")
        ctx.oblige(f"cnf/frame#{i}:circuit-untouched", o.st.pc, verify.heap_eq(ex, o.st.heap, st0.heap, list(st0.heap)), "frame")
    ctx.oblige("cnf/cover:returns-on-some-path", [], z3.BoolVal(n_ret > 0), "cover")
    return {"function": f"{F}::cnf", "sha256": sha, "lines": [fn.lineno, fn.end_lineno],
            "variants": ["typed circuit; single-input types <=1 driver; parity gates 1..2 drivers (chain for >=3 drivers: bounded only)"]}


TASKS = {"C01/cnf": cnf_task}
