"""C01: sat.cnf -- the clauses emitted for every node are equivalent to its gate equation, for an arbitrary
assignment mu of the pool objects (so: for all assignments):
   soundness     Sat(formula)(mu)  =>  every node of c satisfies gateok under mu
   completeness  gateok everywhere and the auxiliaries carry their witness values  =>  Sat(formula)(mu)
Fan-in is an arbitrary finite set (no arity bound) for and/nand/or/nor; parity gates are proved for fan-in 1..2
(the >=3 chain is covered by the bounded check only: see DESIGN)."""
import z3

from contracts import layer1
from pyvc import engine, models, spec, verify
from pyvc.engine import State
from pyvc.exec import Exec

F = "circuitgraph/sat.py"


from pyvc.spec import gateok, witness, cnf_domain  # noqa: E402


def cnf_task(ctx):
    fn, seg, sha = engine.find_function(F, "cnf")
    T = ctx.tval
    H = {}
    GOOD = ["and", "nand", "or", "nor", "not", "buf", "bb_input", "xor", "xnor", "0", "1", "bb_output", "input"]

    def node_loop(ex, s, st, it, ordinal):
        c, formula = H["c"], st.env["formula"]
        mu = models.mu_of(ex)
        g = st.g(c)
        def inv(ex, stx, done):
            sat = stx.heap[formula.oid]["sat"]
            m = ctx.fresh_name("im")
            allok = z3.ForAll([m], z3.Implies(done.mem(m), gateok(ctx, ex, g, mu, m)))
            return [("sound", z3.Implies(sat, allok)),
                    ("complete", z3.Implies(z3.And(witness(ctx, mu), allok), sat)),
                    ("every-processed-node-occurs-in-a-clause", z3.ForAll([m], z3.Implies(done.mem(m), z3.Select(stx.heap[formula.oid]["men"], ctx.Obj.nm(m))))),
                    ("types-encodable", z3.ForAll([m], z3.Implies(done.mem(m), z3.Or([z3.Select(g.ty, m) == T[k] for k in GOOD]))))]
        return ex.invariant_for(s, st, it, ordinal, inv, mod_objs=[formula], label="nodes")

    def chain_loop(ex, s, st, it, ordinal):
        # variant restriction: parity gates have at most two drivers, so the chain loop never runs
        def inv(ex, stx):
            nets = stx.env["nets"]
            return [("at-most-two-operands", ex.card(nets) <= 2)]
        return ex.invariant_while(s, st, ordinal, inv, mod_locals=[], label="parity-chain(fan-in<=2)")

    ex = Exec(ctx, summaries=dict(layer1.SUMMARIES), module_consts=engine.module_constants("circuitgraph/circuit.py"), fname="cnf")
    loops = sorted([n for n in __import__("ast").walk(fn) if isinstance(n, (__import__("ast").For, __import__("ast").While))], key=lambda n: (n.lineno, n.col_offset))
    ex.loop_specs = {}
    for k, n in enumerate(loops):
        if k == 0:
            ex.loop_specs[k + 1] = node_loop
        elif isinstance(n, __import__("ast").While):
            ex.loop_specs[k + 1] = chain_loop
    st0 = State({}, {}, [])
    c = verify.mk_circuit(ex, st0, "c")
    H["c"] = c
    g = st0.g(c)
    ty = lambda n: z3.Select(g.ty, n)
    st0.pc.extend(cnf_domain(ctx, g))
    outs = verify.bind_and_run(ex, fn, st0, {"c": c})
    mu = models.mu_of(ex)
    m = ctx.fresh_name("pm")
    consistent = z3.ForAll([m], z3.Implies(g.node(m), gateok(ctx, ex, g, mu, m)))
    n_ret = 0
    for o in outs:
        i = o.st.pathid()
        if o.kind == "raise":
            bad = z3.Exists([m], z3.And(g.node(m), z3.Not(z3.Or([ty(m) == T[k] for k in GOOD]))))
            ctx.oblige(f"cnf/post-exc#{i}:ValueError-only-for-an-unencodable-type", o.st.pc, z3.And(z3.BoolVal(o.exc == "ValueError"), bad), "post-exc")
        else:
            n_ret += 1
            formula = o.value.items[0]
            sat = o.st.heap[formula.oid]["sat"]
            ctx.oblige(f"cnf/post#{i}:soundness(Sat=>consistent)", o.st.pc, z3.Implies(sat, consistent), "post")
            ctx.oblige(f"cnf/post#{i}:every-node-variable-occurs-in-a-clause(model-index-in-range)", o.st.pc,
                       z3.ForAll([m], z3.Implies(g.node(m), z3.Select(o.st.heap[formula.oid]["men"], ctx.Obj.nm(m)))), "post")
            ctx.oblige(f"cnf/post#{i}:completeness(consistent+witness=>Sat)", o.st.pc, z3.Implies(z3.And(witness(ctx, mu), consistent), sat), "post")
        ctx.oblige(f"cnf/frame#{i}:circuit-untouched", o.st.pc, verify.heap_eq(ex, o.st.heap, st0.heap, list(st0.heap)), "frame")
    ctx.oblige("cnf/cover:returns-on-some-path", [], z3.BoolVal(n_ret > 0), "cover")
    return {"function": f"{F}::cnf", "sha256": sha, "lines": engine.abs_lines(fn),
            "variants": ["typed circuit; single-input types <=1 driver; parity gates 1..2 drivers (chain for >=3 drivers: bounded only)"]}


TASKS = {"C01/cnf": cnf_task}


# ----------------------------------------------------------------------------------------------- solve()
from contracts import sat_contracts  # noqa: E402
from pyvc.engine import DictV, NONE, NameV, ObjRef, alloc  # noqa: E402
from pyvc.exec import ClassV  # noqa: E402


def _sym_assumptions(ctx, tag="A"):
    dom = ctx.arr_nb(tag + "_dom")
    val = ctx.arr_nb(tag + "_val")
    return DictV(lambda x: z3.Select(dom, x), lambda x: z3.Select(val, x), vkind="bool")


def add_assumptions_task(ctx):
    fn, seg, sha = engine.find_function(F, "add_assumptions")

    def loop(ex, s, st, it, ordinal):
        formula = st.env["formula"]
        rec0 = st.heap[formula.oid]
        A = st.env["assumptions"]
        mu = models.mu_of(ex)
        def inv(ex, stx, done):
            rec = stx.heap[formula.oid]
            n, o = ctx.fresh_name("an"), ctx.fresh("ao", ctx.Obj)
            return [("clauses", rec["sat"] == z3.And(rec0["sat"], z3.ForAll([n], z3.Implies(done.mem(n), z3.Select(mu, ctx.Obj.nm(n)) == A.val(n))))),
                    ("variables", z3.ForAll([o], z3.Select(rec["men"], o) == z3.Or(z3.Select(rec0["men"], o), z3.Exists([n], z3.And(done.mem(n), o == ctx.Obj.nm(n))))))]
        return ex.invariant_for(s, st, it, ordinal, inv, mod_objs=[formula], label="assumptions")

    ex = Exec(ctx, summaries={}, module_consts={}, loop_specs={1: loop}, fname="add_assumptions")
    st0 = State({}, {}, [])
    formula = ObjRef(alloc(st0, {"kind": "CNF", "sat": ctx.fresh("Sat0", z3.BoolSort()), "men": ctx.fresh("men0", z3.ArraySort(ctx.Obj, z3.BoolSort()))}, "cnf"), "CNF")
    variables = ObjRef(alloc(st0, {"kind": "IDPool"}, "idpool"), "IDPool")
    A = _sym_assumptions(ctx)
    body = verify.bind_and_run(ex, fn, st0, {"formula": formula, "variables": variables, "assumptions": A})
    specs = verify.run_summary(ex, sat_contracts.s_add_assumptions, st0, None, [formula, variables, A], {})
    verify.refine_vcs(ex, "add_assumptions", st0, body, specs)
    return {"function": f"{F}::add_assumptions", "sha256": sha, "lines": engine.abs_lines(fn), "variants": ["dict name->bool"]}


def solve_task(with_assumptions):
    def run(ctx):
        fn_s, _, sha_s = engine.find_function(F, "solve")
        fn_c, _, sha_c = engine.find_function(F, "construct_solver")
        label = f"solve[{'assumptions' if with_assumptions else 'no assumptions'}]"
        summaries = dict(layer1.SUMMARIES)
        summaries.update(sat_contracts.SUMMARIES)
        ex = Exec(ctx, summaries=summaries, module_consts=engine.module_constants("circuitgraph/circuit.py"), fname=label)
        T = ctx.tval
        st0 = State({}, {}, [])
        c = verify.mk_circuit(ex, st0, "c")
        g = st0.g(c)
        st0.pc.extend(spec.cnf_domain(ctx, g))
        A = _sym_assumptions(ctx) if with_assumptions else NONE
        if with_assumptions:
            x = ctx.fresh_name("ne")
            st0.pc.append(z3.Exists([x], A.dom(x)))
        mu = models.mu_of(ex)

        # construct_solver is executed through its real body: it is inlined as a summary built from that body
        def s_construct_solver(ex_, st, recv, args, kw, e):
            """construct_solver is executed through its REAL body, inlined at the call site: its paths become decision
            points of the caller's exploration (raising paths via split_raise, returning paths via choice)"""
            outs = verify.bind_and_run(ex_, fn_c, st, {"c": args[0], "assumptions": args[1] if len(args) > 1 else NONE, "Cadical153": ClassV("Solver")})
            base = len(st.pc)
            cond_of = lambda o: z3.And(o.st.pc[base:]) if len(o.st.pc) > base else z3.BoolVal(True)
            for o in outs:
                if o.kind == "raise":
                    ex_.split_raise(st, cond_of(o), o.exc)
            norm = [o for o in outs if o.kind == "return"]
            if not norm:
                raise engine.Unsupported("construct_solver: no normal path")
            chosen = norm[-1]
            for o in norm[:-1]:
                if ex_.choice(st, cond_of(o)):
                    chosen = o
                    break
            st.heap.update(chosen.st.heap)
            for f_ in chosen.st.pc[base:]:
                st.pc.append(f_)
            return chosen.value
        ex.summaries["construct_solver"] = s_construct_solver
        ex.consts = dict(ex.consts)
        outs = verify.bind_and_run(ex, fn_s, st0, {"c": c, "assumptions": A})
        cons = spec.consistent(ctx, ex, g, mu)
        n = ctx.fresh_name("pn")
        agrees_mu = z3.ForAll([n], z3.Implies(A.dom(n), z3.Select(mu, ctx.Obj.nm(n)) == A.val(n))) if with_assumptions else z3.BoolVal(True)
        kinds = set()
        for o in outs:
            i = o.st.pathid()
            if o.kind == "raise":
                kinds.add("raise")
                bad_type = z3.Exists([n], z3.And(g.node(n), z3.Not(z3.Or([z3.Select(g.ty, n) == T[k] for k in spec.ENCODABLE]))))
                bad_key = z3.Exists([n], z3.And(A.dom(n), z3.Not(g.node(n)))) if with_assumptions else z3.BoolVal(False)
                ctx.oblige(f"{label}/post-exc#{i}:ValueError-only-for-unencodable-type-or-unknown-assumption-key", o.st.pc,
                           z3.And(z3.BoolVal(o.exc == "ValueError"), z3.Or(bad_type, bad_key)), "post-exc")
            elif isinstance(o.value, bool) and o.value is False:
                kinds.add("False")
                ctx.oblige(f"{label}/post#{i}:False-only-if-no-consistent-valuation(with-witness-auxiliaries)-agrees-with-A", o.st.pc,
                           z3.Not(z3.And(spec.witness(ctx, mu), cons, agrees_mu)), "post")
            else:
                kinds.add("dict")
                res = o.value
                rv = lambda t: res.val(t)
                ctx.oblige(f"{label}/post#{i}:result-is-defined-exactly-on-the-nodes", o.st.pc, z3.ForAll([n], res.dom(n) == g.node(n)), "post")
                # the returned valuation is mu restricted to the nodes: consistent and agreeing with A
                ctx.oblige(f"{label}/post#{i}:result-reads-the-model", o.st.pc, z3.ForAll([n], z3.Implies(g.node(n), rv(n) == z3.Select(mu, ctx.Obj.nm(n)))), "post")
                ctx.oblige(f"{label}/post#{i}:result-is-a-consistent-valuation", o.st.pc, cons, "post")
                ctx.oblige(f"{label}/post#{i}:result-agrees-with-A", o.st.pc, agrees_mu, "post")
            ctx.oblige(f"{label}/frame#{i}:circuit-untouched", o.st.pc, verify.heap_eq(ex, o.st.heap, st0.heap, list(st0.heap)), "frame")
        ctx.oblige(f"{label}/cover:all-three-outcomes-reachable", [], z3.BoolVal({"False", "dict"} <= kinds), "cover")
        return {"function": f"{F}::solve+construct_solver", "sha256": sha_s + "+" + sha_c, "variants": [label]}
    return run


TASKS["C01/add_assumptions"] = add_assumptions_task
TASKS["C01/solve[no assumptions]"] = solve_task(False)
TASKS["C01/solve[assumptions]"] = solve_task(True)
