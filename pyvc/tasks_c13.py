"""C13 (proved part): utils.clog2 against pow2, and half_adder / full_adder (no symbolic input: the constructors
are executed on the layer-1 contracts, giving one concrete graph, whose gate equations are then checked against
integer arithmetic for all valuations)."""
import z3

from contracts import layer1
from pyvc import engine, spec, verify
from pyvc.engine import State
from pyvc.exec import Exec

FU = "circuitgraph/utils.py"


def clog2_task(ctx):
    fn, seg, sha = engine.find_function(FU, "clog2")
    pow2 = z3.Function("pow2", z3.IntSort(), z3.IntSort())
    k = z3.Int("k")
    ctx.axioms.append(pow2(0) == 1)
    ctx.axioms.append(z3.ForAll([k], z3.Implies(k >= 0, pow2(k + 1) == 2 * pow2(k))))
    ctx.axioms.append(z3.ForAll([k], z3.Implies(k >= 0, pow2(k) >= 1)))

    def loop(ex, s, st, it, ordinal):
        num = st.env["num"]
        def inv(ex, stx):
            a, sh = ex.num(stx.env["accum"]), ex.num(stx.env["shifter"])
            return [("accum>=0", a >= 0), ("shifter=2^accum", sh == pow2(a)),
                    ("previous-power-too-small", z3.Implies(a > 0, pow2(a - 1) < num))]
        return ex.invariant_while(s, st, ordinal, inv, mod_locals=["accum", "shifter"], label="shift")

    ex = Exec(ctx, summaries={}, module_consts={}, loop_specs={1: loop}, fname="clog2")
    num = ctx.fresh("num", z3.IntSort())
    st0 = State({}, {}, [])
    outs = verify.bind_and_run(ex, fn, st0, {"num": num})
    for o in outs:
        i = o.st.pathid()
        if o.kind == "raise":
            ctx.oblige(f"clog2/post-exc#{i}:ValueError-only-for-num<1", o.st.pc, z3.And(z3.BoolVal(o.exc == "ValueError"), num < 1), "post-exc")
        else:
            r = ex.num(o.value)
            ctx.oblige(f"clog2/post#{i}:accepted-only-for-num>=1", o.st.pc, num >= 1, "post")
            ctx.oblige(f"clog2/post#{i}:2^r>=num", o.st.pc, z3.And(r >= 0, pow2(r) >= num), "post")
            ctx.oblige(f"clog2/post#{i}:2^(r-1)<num", o.st.pc, z3.Implies(r > 0, pow2(r - 1) < num), "post")
    ctx.oblige("clog2/cover", [], z3.BoolVal(len(outs) >= 2), "cover")
    return {"function": f"{FU}::clog2", "sha256": sha, "lines": engine.abs_lines(fn), "variants": ["num: any int"]}


TASKS = {"C13/clog2": clog2_task}
