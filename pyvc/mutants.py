"""In-memory mutants (vacuity guard): python3-vt -m pyvc.mutants <task> <qual> [max]
Applies each applicable AST mutation to the function *in memory* (never to /repo), re-runs the task and reports
whether some obligation stops being discharged (killed) -- a surviving mutant is either equivalent or shows a
contract that is too weak."""
import os, sys, json, subprocess
def main():
    task, qual = sys.argv[1], sys.argv[2]
    mx = int(sys.argv[3]) if len(sys.argv) > 3 else 1000
    from pyvc import engine
    from pyvc.plan import TASK_FILES
    fn, _, _ = engine.find_function(TASK_FILES.get(task.split("/")[0], "circuitgraph/circuit.py"), qual)
    sites = engine.mutation_sites(fn)
    if len(sites) > mx:  # an even sample over the kinds of sites
        step = len(sites) / mx
        sites = [sites[int(k * step)] for k in range(mx)]
    code = ("import json,sys; from pyvc.main import run_task; r=run_task(sys.argv[1]); "
            "print(json.dumps({'status': r['status'], 'bad': [o['id']+':'+o['status'] for o in r['obligations'] if o['status']!='discharged'][:3], 'n': len(r['obligations']), 'detail': r.get('detail','')[:150]}))")
    procs = []
    for kind, idx in sites:
        env = dict(os.environ, PYVC_MUTATE=f"{qual}::{kind}:{idx}", PYVC_TIMEOUT_MS="10000", PYVC_NO_PORTFOLIO="1", PYVC_STOP_FIRST="1", PYVC_NO_RETRY="1")
        procs.append(((kind, idx), subprocess.Popen([sys.executable, "-c", code, task], env=env, stdout=subprocess.PIPE, stderr=subprocess.DEVNULL, text=True)))
        if len(procs) >= 14:
            _drain(procs)
    _drain(procs, True)
    killed = sum(1 for r in RESULTS if r[1] != "SURVIVED")
    print(f"mutants: {len(RESULTS)} killed-or-undecided: {killed} survived: {len(RESULTS) - killed}")
    if os.environ.get("PYVC_MUTANTS_JSON"):
        json.dump({"task": task, "function": qual, "mutants": len(RESULTS), "killed_or_undecided": killed,
                   "survivors": [f"{k}:{i}" for (k, i), v in RESULTS if v == "SURVIVED"]}, open(os.environ["PYVC_MUTANTS_JSON"], "w"))
RESULTS = []
def _drain(procs, all_=False):
    while procs and (all_ or len(procs) >= 14):
        (site, p) = procs.pop(0)
        out, _ = p.communicate()
        try:
            r = json.loads(out.strip().split("\n")[-1])
        except Exception:
            r = {"status": "crash", "bad": [], "n": 0}
        if r["status"] != "ok":
            verdict = "UNDECIDED(" + r["status"] + ")"
        elif r["bad"]:
            verdict = "KILLED " + r["bad"][0]
        else:
            verdict = "SURVIVED"
        RESULTS.append((site, verdict))
        print(site, verdict, r.get("detail", "")[:100] if r["status"] != "ok" else "")
main()
