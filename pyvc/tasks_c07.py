"""C07: every construction-API mutator preserves the representation invariant `wired` (DESIGN 4.2, written from
the property statement) on normal AND exceptional exits, and a rejected call leaves the edge set unchanged.
These are lemmas over the layer-1 contracts (the bodies are tied to the contracts by the `refines` obligations)."""
import z3

from contracts import layer1, layer2
from pyvc import engine, spec, verify
from pyvc.engine import NONE, NameV, State, TypeV
from pyvc.exec import Exec
from pyvc.tasks_layer1 import _arg

F = layer1.F
ALL_SUMMARIES = dict(layer1.SUMMARIES)
ALL_SUMMARIES.update(layer2.SUMMARIES)


def lemma_task(qual, variants, mk_args, removed_arg=None):
    def run(ctx):
        fn, seg, sha = engine.find_function(F, qual)
        info = {"function": f"{F}::{qual}", "sha256": sha, "lines": engine.abs_lines(fn), "variants": [], "kind": "lemma over the contract"}
        for vname in variants:
            label = f"C07:{qual}[{vname}]"
            ex = Exec(ctx, summaries=dict(layer1.SUMMARIES), module_consts=engine.module_constants(F), fname=label)
            st0 = State({}, {}, [])
            me = verify.mk_circuit(ex, st0, "self", wf=False)
            pin = ctx.template(("", ".", ""))
            g0, bb0 = st0.g(me), st0.bb(me)
            # R: the pin nodes the caller removed earlier in the history (arbitrary set: the stated exception)
            R = ctx.arr_nb("removed_by_caller")
            st0.pc.append(spec.wired(ctx, g0, bb0, pin, lambda n, R=R: z3.Select(R, n)))
            args, kwargs = mk_args(ex, vname)
            outs = verify.run_summary(ex, ALL_SUMMARIES[qual], st0, me, args, kwargs)
            n_feasible = 0
            for i, o in enumerate(outs):
                i = o.st.pathid()
                g1, bb1 = o.st.g(me), o.st.bb(me)
                removed = lambda n, R=R: z3.Select(R, n)
                if removed_arg is not None:
                    c = layer1._names(ex, args[removed_arg])
                    removed = lambda n, c=c, R=R: z3.Or(z3.Select(R, n), c.mem(n))
                what = "raise(" + str(o.exc) + ")" if o.kind == "raise" else "return"
                parts = [("graph-invariant", g1.wf(ctx)), ("typed", spec.typed(ctx, g1)), ("wiring", spec.wired_edges(ctx, g1)),
                         ("registry", spec.registry_ok(ctx, g1, bb1, pin, removed)),
                         ("pins-of-distinct-instances", spec.pins_distinct(ctx, bb1, pin, removed))]
                for lab, f in parts:
                    ctx.oblige(f"{label}/wired#{i}:{what}:{lab}", o.st.pc, f, "lemma")
                if o.kind == "raise":
                    ctx.oblige(f"{label}/rejected-call-adds-no-edge#{i}:{what}", o.st.pc, spec.same_edges(ctx, g1, g0), "lemma")
                    ctx.oblige(f"{label}/rejected-call-class#{i}:{what}", o.st.pc, z3.BoolVal(o.exc in ("ValueError", "KeyError")), "lemma")
            info["variants"].append(vname)
        return info
    return run


def lemma_add_subcircuit(variants):
    """wired(self) and wired(sc) before => wired(self) after add_subcircuit(sc, name, connections), on every outcome.
    (sc is itself built by the construction API, so it is wired: the induction of C07 is over call sequences.)"""
    qual = "Circuit.add_subcircuit"
    def run(ctx):
        from pyvc.engine import DictV
        fn, seg, sha = engine.find_function(F, qual)
        info = {"function": f"{F}::{qual}", "sha256": sha, "lines": engine.abs_lines(fn), "variants": [], "kind": "lemma over the contract"}
        for nconn, strip in variants:
            vname = f"connections={nconn},strip_io={strip}"
            label = f"C07:{qual}[{vname}]"
            ex = Exec(ctx, summaries=dict(ALL_SUMMARIES), module_consts=engine.module_constants(F), fname=label)
            st0 = State({}, {}, [])
            me = verify.mk_circuit(ex, st0, "self", wf=False)
            sc = verify.mk_circuit(ex, st0, "sc", wf=False)
            pin = ctx.template(("", ".", ""))
            g0, bb0 = st0.g(me), st0.bb(me)
            R, Rc = ctx.arr_nb("removed_by_caller"), ctx.arr_nb("removed_in_child")
            st0.pc.append(spec.wired(ctx, g0, bb0, pin, lambda n, R=R: z3.Select(R, n)))
            st0.pc.append(spec.wired(ctx, st0.g(sc), st0.bb(sc), pin, lambda n, Rc=Rc: z3.Select(Rc, n)))
            name = NameV(ctx.fresh_name("name"))
            pre_, unpre_ = layer2.prefix_fn(ex, name)
            removed_after = lambda n, R=R, Rc=Rc: z3.Or(z3.Select(R, n), z3.And(n == pre_(unpre_(n)), z3.Select(Rc, unpre_(n))))
            conns = NONE
            if nconn:
                items = [(ctx.fresh_name(f"key{k}"), NameV(ctx.fresh_name(f"net{k}"))) for k in range(nconn)]
                conns = DictV(lambda y, ks=[k for k, _ in items]: z3.Or([y == k for k in ks]), None, items=items)
                for a in range(nconn):
                    for b in range(a):
                        st0.pc.append(items[a][0] != items[b][0])
            outs = verify.run_summary(ex, ALL_SUMMARIES[qual], st0, me, [sc, name], {"connections": conns, "strip_io": strip})
            for o in outs:
                i = o.st.pathid()
                g1, bb1 = o.st.g(me), o.st.bb(me)
                what = "raise(" + str(o.exc) + ")" if o.kind == "raise" else "return"
                parts = [("graph-invariant", g1.wf(ctx)), ("typed", spec.typed(ctx, g1)), ("wiring", spec.wired_edges(ctx, g1)),
                         ("registry", spec.registry_ok(ctx, g1, bb1, pin, removed_after)),
                         ("pins-of-distinct-instances", spec.pins_distinct(ctx, bb1, pin, removed_after))]
                for lab, f in parts:
                    ctx.oblige(f"{label}/wired#{i}:{what}:{lab}", o.st.pc, f, "lemma")
                if o.kind == "raise":
                    ctx.oblige(f"{label}/rejected-call-adds-no-edge#{i}:{what}", o.st.pc, spec.same_edges(ctx, g1, g0), "lemma")
                    ctx.oblige(f"{label}/rejected-call-class#{i}:{what}", o.st.pc, z3.BoolVal(o.exc in ("ValueError", "KeyError")), "lemma")
            info["variants"].append(vname)
        return info
    return run


def _two(ex, v):
    a, b = v.split(",")
    return [_arg(ex, a, "us"), _arg(ex, b, "vs")], {}


def _one(ex, v):
    return [_arg(ex, v, "ns")], {}


def _setout(ex, v):
    return [_arg(ex, v, "ns"), verify.note_arg(ex, "flag", ex.ctx.fresh("flag", z3.BoolSort()))], {}


def _add(uid):
    def mk(ex, v):
        fi, fo = v.split(",")
        sh = {"none": lambda t: NONE, "str": lambda t: _arg(ex, "str", t), "list": lambda t: _arg(ex, "list", t), "set": lambda t: _arg(ex, "set", t)}
        nt = ex.ctx.fresh("node_type", ex.ctx.T)
        verify.note_arg(ex, "node_type", nt)
        return [_arg(ex, "str", "n"), TypeV(nt)], {"fanin": sh[fi]("fanin"), "fanout": sh[fo]("fanout"),
                                                                                    "output": ex.ctx.fresh("output", z3.BoolSort()), "uid": uid}
    return mk


def _addbb(ex, v):
    from pyvc.exec import BBVal
    return [BBVal(ex.ctx.fresh("blackbox", ex.ctx.BB)), NameV(ex.ctx.fresh_name("name"))], {}


def setter_on_body(qual, param, shapes):
    """set_output(ns, flag) with an arbitrary list / set (absent nodes included: the real loop sets the flag of the
    elements before the first absent one and then raises KeyError): `wired` holds on every exit and the edge set is
    unchanged -- proved on the body (the loop invariant: everything but the output attributes is unchanged)."""
    def run(ctx):
        fn, seg, sha = engine.find_function(F, qual)
        info = {"function": f"{F}::{qual}", "sha256": sha, "lines": engine.abs_lines(fn), "variants": [], "kind": "postcondition on the body"}
        for shape in shapes:
            label = f"C07:{qual}[{shape}, any elements]"

            def loop(ex, s, st, it, ordinal):
                me = st.env["self"]
                g_in = st.g(me)
                def inv(ex, stx, done):
                    g = stx.g(me)
                    x = ctx.fresh_name("lx")
                    return [("rest-unchanged", g.same(g_in, ctx, fields=["N", "hasty", "ty", "FI"])),
                            ("flags-only-on-nodes", z3.ForAll([x], z3.Implies(z3.Select(g.hasout, x), g.node(x))))]
                return ex.invariant_for(s, st, it, ordinal, inv, mod_objs=[me], label="set-flags")
            ex = Exec(ctx, summaries={k: v for k, v in ALL_SUMMARIES.items() if k != qual}, module_consts=engine.module_constants(F), loop_specs={1: loop}, fname=label)
            st0 = State({}, {}, [])
            me = verify.mk_circuit(ex, st0, "self", wf=False)
            pin = ctx.template(("", ".", ""))
            g0, bb0 = st0.g(me), st0.bb(me)
            R = ctx.arr_nb("removed_by_caller")
            st0.pc.append(spec.wired(ctx, g0, bb0, pin, lambda n, R=R: z3.Select(R, n)))
            bind = {"self": me, param: _arg(ex, shape, "ns"), "output": ex.ctx.fresh("flag", z3.BoolSort())}
            n_ret = n_exc = 0
            for o in verify.bind_and_run(ex, fn, st0, bind):
                i = o.st.pathid()
                g1, bb1 = o.st.g(me), o.st.bb(me)
                what = "raise(" + str(o.exc) + ")" if o.kind == "raise" else "return"
                for lab, f in [("graph-invariant", g1.wf(ctx)), ("typed", spec.typed(ctx, g1)), ("wiring", spec.wired_edges(ctx, g1)),
                               ("registry", spec.registry_ok(ctx, g1, bb1, pin, lambda n, R=R: z3.Select(R, n))),
                         ("pins-of-distinct-instances", spec.pins_distinct(ctx, bb1, pin, lambda n, R=R: z3.Select(R, n)))]:
                    ctx.oblige(f"{label}/wired#{i}:{what}:{lab}", o.st.pc, f, "post")
                ctx.oblige(f"{label}/edges-unchanged#{i}:{what}", o.st.pc, spec.same_edges(ctx, g1, g0), "post")
                if o.kind == "raise":
                    n_exc += 1
                    ctx.oblige(f"{label}/rejected-call-class#{i}:{what}", o.st.pc, z3.BoolVal(o.exc in ("ValueError", "KeyError")), "post")
                else:
                    n_ret += 1
            ctx.oblige(f"{label}/cover:returns-and-rejects", [], z3.BoolVal(n_ret > 0 and n_exc > 0), "cover")
            info["variants"].append(shape)
        return info
    return run


PAIRS = ["str,str", "list,list", "str,list", "list,str", "set,str", "str,set", "list,set", "set,list", "set,set"]
ADDV = [f"{a},{b}" for a in ("none", "str", "list") for b in ("none", "str", "list")]
def base_case(ctx):
    """the empty circuit satisfies the invariant of the induction (for any set R)"""
    from pyvc.engine import Graph, BBDict
    g, bb = Graph.empty(ctx), BBDict.empty(ctx)
    pin = ctx.template(("", ".", ""))
    R = ctx.arr_nb("removed_by_caller")
    rem = lambda n: z3.Select(R, n)
    for lab, f in [("graph-invariant", g.wf(ctx)), ("typed", spec.typed(ctx, g)), ("wiring", spec.wired_edges(ctx, g)),
                   ("registry", spec.registry_ok(ctx, g, bb, pin, rem)), ("pins-of-distinct-instances", spec.pins_distinct(ctx, bb, pin, rem))]:
        ctx.oblige(f"C07:empty-circuit/wired:{lab}", [], f, "lemma")
    return {"function": "circuitgraph/circuit.py::Circuit.__init__ (empty graph, empty registry)", "sha256": "", "lines": [0, 0], "variants": ["empty circuit"], "kind": "base case of the induction"}


TASKS = {
    "C07/base-case": base_case,
    "C07/connect": lemma_task("Circuit.connect", PAIRS, _two),
    "C07/disconnect": lemma_task("Circuit.disconnect", PAIRS, _two),
    "C07/remove": lemma_task("Circuit.remove", ["str", "list", "set"], _one, removed_arg=0),
    "C07/set_output": lemma_task("Circuit.set_output", ["str"], _setout),
    "C07/add[default]": lemma_task("Circuit.add", ADDV, _add(False)),
    "C07/add[uid]": lemma_task("Circuit.add", ADDV, _add(True)),
    "C07/add_subcircuit[no connections]": lemma_add_subcircuit([(0, True), (0, False)]),
    "C07/add_subcircuit[1 connection]": lemma_add_subcircuit([(1, True)]),
    "C07/set_output[list] on the body": setter_on_body("Circuit.set_output", "ns", ["list", "set"]),
    "C07/add_blackbox": lemma_task("Circuit.add_blackbox", ["no connections"], _addbb),
}
