"""Which verification tasks serve which property, and the fixed lists reported in every evidence file."""
TASK_MODULES = ["pyvc.tasks_layer1", "pyvc.tasks_c07", "pyvc.tasks_c16", "pyvc.tasks_c20", "pyvc.tasks_c13", "pyvc.tasks_c04", "pyvc.tasks_c01", "pyvc.tasks_c19", "pyvc.tasks_l2", "pyvc.tasks_c05", "pyvc.tasks_c13b", "pyvc.tasks_ft"]

L1_ALL = ["layer1/Circuit." + m for m in ("type", "is_output", "fanin", "fanout", "nodes", "edges", "connect", "disconnect", "remove",
                                          "set_output", "set_type", "outputs", "inputs", "io", "startpoints", "endpoints", "uid", "add[default]", "add[uid]")]
# Every function's contract is verified ONCE, under the property whose statement it details (its home):
#   construction API -> C07, read-only queries -> C12, copy -> C19, splice (add_subcircuit / add_blackbox bodies) -> C06.
# A property whose proof calls such a function uses the contract and names it as a dependency (DEPENDS_ON): a change
# that breaks connect is reported by C07's check, not by every property whose proof happens to call connect.
PROPERTY_TASKS = {
    "C07": ["layer1/Circuit.connect", "layer1/Circuit.disconnect", "layer1/Circuit.remove", "layer1/Circuit.set_output", "layer1/Circuit.set_type",
            "layer1/Circuit.uid", "layer1/Circuit.add[default]", "layer1/Circuit.add[uid]",
            "C07/connect", "C07/disconnect", "C07/remove", "C07/set_output", "C07/add[default]", "C07/add[uid]"],
    "C12": ["layer1/Circuit.type", "layer1/Circuit.is_output", "layer1/Circuit.nodes", "layer1/Circuit.edges", "layer1/Circuit.io",
            "layer1/Circuit.fanin", "layer1/Circuit.fanout", "layer1/Circuit.startpoints", "layer1/Circuit.endpoints",
            "layer1/Circuit.inputs", "layer1/Circuit.outputs", "layer1/Circuit.filter_type", "layer1/Circuit.__contains__", "layer1/Circuit.transitive_fanin", "layer1/Circuit.transitive_fanout", "layer1/Circuit.is_cyclic"],
    "C01": ["C01/cnf", "C01/add_assumptions", "C01/solve[no assumptions]", "C01/solve[assumptions]"],
    "C04": ["C04/miter[self,default]", "C04/miter[pair,default]", "C04/miter[pair,explicit]", "C04/miter-encoding-lemma"],
    "C13": ["C13/clog2", "C13/half_adder", "C13/half_adder[body == contract]", "C13/full_adder"],
    "C05": ["C05/limit_fanout[structure]", "C05/limit_fanin[structure]"],
    "C16": ["C16/remove_unloaded"],
    "C20": ["C20/lint"],
    "C19": ["layer1/Circuit.copy"],
}
QUERIES = "type is_output nodes edges io fanin fanout startpoints endpoints inputs outputs filter_type".split()
DEPENDS_ON = {
    "C01": [("Circuit." + m, "C12") for m in ("type", "fanin", "nodes")],
    "C04": [("Circuit.add", "C07"), ("Circuit.connect", "C07"), ("Circuit.startpoints", "C12"), ("Circuit.endpoints", "C12"),
            ("Circuit.add_subcircuit (literal name, no connections)", "C06")],
    "C16": [("Circuit.remove", "C07")] + [("Circuit." + m, "C12") for m in ("fanin", "fanout", "type", "is_output")],
    "C20": [("Circuit." + m, "C12") for m in ("type", "fanin", "fanout", "is_output", "nodes")],
    "C05": [("Circuit.copy", "C19"), ("Circuit.add", "C07"), ("Circuit.disconnect", "C07"), ("Circuit.fanin", "C12"), ("Circuit.fanout", "C12"), ("Circuit.nodes", "C12"), ("Circuit.type", "C12")],
    "C06": [("Circuit.connect", "C07"), ("Circuit.add", "C07"), ("Circuit.remove", "C07"), ("Circuit.set_type", "C07"), ("Circuit.set_output", "C07"),
            ("Circuit.inputs", "C12"), ("Circuit.outputs", "C12")],
    "C07": [("Circuit." + m, "C12") for m in ("type", "fanin", "fanout", "inputs", "outputs")] + [("Circuit.add_subcircuit / add_blackbox (body == contract)", "C06")],
}


def _c19_frame_tasks():
    from pyvc import tasks_c19
    return sorted(tasks_c19.TASKS)


TRUSTED_BASE = [
    "assumed contract of pysat (IDPool.id injective; CNF.append; Solver.solve sound and complete for the added clauses; get_model indexes every variable occurring in a clause) -- python-sat is absent, the shim is written to this contract",
    "contract of Circuit.add_subcircuit (contracts/layer2.py): proved on the body for calls with 0 or 1 connection (tasks layer2/*); ASSUMED for calls with >= 2 connections (bounded-checked by C06)",
    "assumed contract of networkx.relabel_nodes(copy=True) (injective mapping obligation is generated at the call) and DiGraph.update",
    "meta-lemmas: M1, M2, M6, M7, M8 (Lean-checked, /verif/lean/MetaLemmas.lean; M8 = an invariant preserved by every operation holds after every history), M5 (consistency is invariant under graph isomorphism), M6 (a valuation of the nodes extends to the parity auxiliaries by structural recursion)",
    "z3 5.1 (python API) / z3 4.8.12 / cvc5 1.0.3 as back ends",
    "pyvc itself (the VC generator written for this task: /verif/pyvc)",
    "assumed contracts of networkx.DiGraph operations and Python containers (pyvc/models.py), conformance-tested, not verified",
]
ASSUMPTIONS = [
    "A1 no monkey-patching: names resolve to the definitions in /repo and the installed networkx",
    "A2 truthiness of str/list/set/dict is non-emptiness; Circuit is falsy iff it has no node",
    "A3 isinstance(x, str) is decided by the argument shape of the contract variant being verified",
    "A4 iteration over a set/dict visits each element once in an arbitrary order; set.pop() returns an arbitrary member; lists whose order never matters are modelled as multisets",
    "A5 partial correctness: termination is not proved",
    "A6 only the modelled exception classes arise from modelled operations (KeyError, ValueError, IndexError, NetworkXError)",
    "Python ints are mathematical integers (exact for Python)",
    "node names are an uninterpreted sort; f-strings are uninterpreted functions constrained only by string facts that hold for all strings (injectivity of single-hole templates, disjointness of templates with incompatible literal prefixes/suffixes, associativity of nesting a template that ends with a hole into one that starts with a hole); every such axiom is also discharged as a `strfact` obligation over the theory of strings (z3 seq / cvc5 --strings-exp), trusting only that an f-string of str values is their concatenation",
]
EXTRACTION_DROPS = [
    "docstrings and comments",
    "the text of exception messages (class and path condition are kept)",
    "import statements (imported names are bound to assumed contracts)",
    "nothing else: a decorated function is rejected (outside the subset) rather than verified without its decorator",
]

TASK_FILES = {"layer1": "circuitgraph/circuit.py", "C07": "circuitgraph/circuit.py", "C16": "circuitgraph/circuit.py", "C20": "circuitgraph/utils.py", "C04": "circuitgraph/tx.py", "C13": "circuitgraph/utils.py", "C01": "circuitgraph/sat.py"}

PROPERTY_TASKS["C19"] = PROPERTY_TASKS["C19"] + _c19_frame_tasks()
TASK_FILES["C19"] = "circuitgraph/tx.py"

L2_TASKS = ["layer2/add_subcircuit[no connections]", "layer2/add_subcircuit[no connections,literal name]", "layer2/add_subcircuit[no connections,strip_io=False]", "layer2/add_subcircuit[1 connection]"]
L2_BB = ["layer2/add_blackbox[no connections]"]
PROPERTY_TASKS["C06"] = L2_TASKS + L2_BB + ["C07/fill_blackbox on the body"]  # that task also carries the splice postconditions
PROPERTY_TASKS["C07"] = PROPERTY_TASKS["C07"] + ["C07/add_blackbox", "C07/add_subcircuit[no connections]", "C07/add_subcircuit[1 connection]",
                                                 "C07/add_blackbox[connections] on the body", "C07/add_subcircuit[connections] on the body",
                                                 "C07/fill_blackbox on the body", "C07/set_output[list] on the body",
                                                 "C07/add_blackbox[list connections] on the body", "C07/add_subcircuit[list connections] on the body",
                                                 "C07/add_subcircuit[connections,strip_io=False] on the body", "C07/base-case"]
TASK_FILES["layer2"] = "circuitgraph/circuit.py"
TASK_FILES["C05"] = "circuitgraph/tx.py"
DEPENDS_ON["C13"] = [("Circuit.add", "C07"), ("Circuit.add_subcircuit with two connections (contract assumed for >= 2 connections)", "C06")]
TASK_FILES["C13"] = "circuitgraph/logic.py"
