"""C13 (part): logic.half_adder -- the real body is executed symbolically (construction API through its contracts);
postconditions: inputs {x, y}, outputs {c, s}, and for EVERY valuation consistent with the returned circuit
(spec.consistent: the gate equations of DESIGN 4.3)  c = x and y,  s = x xor y;  the block is lint-clean in the sense of
the wiring clauses of C07.  adder / mux / popcount (loops over integer-indexed names) stay with the bounded stand-in."""
import z3

from contracts import layer1, layer2
from pyvc import engine, models, spec, verify
from pyvc.engine import State
from pyvc.exec import Exec

F = "circuitgraph/logic.py"
layer1.SUMMARIES.update(layer2.SUMMARIES)


def half_adder_task(ctx):
    fn, seg, sha = engine.find_function(F, "half_adder")
    info = {"function": f"{F}::half_adder", "sha256": sha, "lines": engine.abs_lines(fn), "variants": [""], "kind": "postcondition on the body"}
    T = ctx.tval
    ex = Exec(ctx, summaries=dict(layer1.SUMMARIES), module_consts=engine.module_constants("circuitgraph/circuit.py"), fname="half_adder")
    st0 = State({}, {}, [])
    outs = verify.bind_and_run(ex, fn, st0, {})
    n_ret = 0
    L = ctx.name_lit
    for o in outs:
        i = o.st.pathid()
        if o.kind == "raise":
            ctx.oblige(f"half_adder/never-raises#{i}", o.st.pc, z3.BoolVal(False), "post")
            continue
        n_ret += 1
        g = o.st.g(o.value)
        bb = o.st.bb(o.value)
        x = ctx.fresh_name("hx")
        mu = models.mu_of(ex)
        O = ctx.Obj
        val = lambda n: z3.Select(mu, O.nm(n))
        is_out = lambda n: z3.And(z3.Select(g.hasout, n), z3.Select(g.out, n))
        cons = spec.consistent(ctx, ex, g, mu)
        posts = {
            "nodes": z3.ForAll([x], g.node(x) == z3.Or([x == L(k) for k in ("x", "y", "c", "s")])),
            "inputs={x,y}": z3.ForAll([x], z3.And(g.node(x), z3.Select(g.ty, x) == T["input"]) == z3.Or(x == L("x"), x == L("y"))),
            "outputs={c,s}": z3.ForAll([x], z3.And(g.node(x), is_out(x)) == z3.Or(x == L("c"), x == L("s"))),
            "carry=x-and-y": z3.Implies(cons, val(L("c")) == z3.And(val(L("x")), val(L("y")))),
            "sum=x-xor-y": z3.Implies(cons, val(L("s")) == z3.Xor(val(L("x")), val(L("y")))),
            "wired(C07 clauses)": z3.And(g.wf(ctx), spec.typed(ctx, g), spec.wired_edges(ctx, g)),
            "no-blackboxes": z3.ForAll([x], z3.Not(z3.Select(bb.dom, x))),
        }
        for k, f in posts.items():
            ctx.oblige(f"half_adder/post#{i}:{k}", o.st.pc, f, "post")
    ctx.oblige("half_adder/cover:returns", [], z3.BoolVal(n_ret > 0), "cover")
    return info


TASKS = {"C13/half_adder": half_adder_task}


def half_adder_refines(ctx):
    """body == contract (the concrete 4-node circuit): callers (full_adder) use the contract"""
    fn, seg, sha = engine.find_function(F, "half_adder")
    info = {"function": f"{F}::half_adder", "sha256": sha, "lines": engine.abs_lines(fn), "variants": ["body == contract"]}
    ex = Exec(ctx, summaries={k: v for k, v in layer1.SUMMARIES.items() if k != "half_adder"}, module_consts=engine.module_constants("circuitgraph/circuit.py"), fname="half_adder[refines]")
    st0 = State({}, {}, [])
    body = verify.bind_and_run(ex, fn, st0, {})
    specs = verify.run_summary(ex, layer2.s_half_adder, st0, None, [], {})
    verify.refine_vcs(ex, "half_adder", st0, body, specs)
    return info


def full_adder_task(ctx):
    """logic.full_adder on its real body (half_adder and add_subcircuit through their contracts): for every valuation
    consistent with the result,  s = x xor y xor cin  and  cout = majority(x, y, cin);  inputs {x, y, cin}, outputs {s, cout}."""
    fn, seg, sha = engine.find_function(F, "full_adder")
    info = {"function": f"{F}::full_adder", "sha256": sha, "lines": engine.abs_lines(fn), "variants": [""], "kind": "postcondition on the body"}
    T = ctx.tval
    ex = Exec(ctx, summaries=dict(layer1.SUMMARIES), module_consts=engine.module_constants("circuitgraph/circuit.py"), fname="full_adder")
    st0 = State({}, {}, [])
    L = lambda s_: ex.name_term(engine.StrLit(s_))
    NODES = {"x": "input", "y": "input", "cin": "input", "x_y_ha_x": "buf", "x_y_ha_y": "buf", "x_y_ha_c": "and", "x_y_ha_s": "xor",
             "cin_s_ha_x": "buf", "cin_s_ha_y": "buf", "cin_s_ha_c": "and", "cin_s_ha_s": "xor", "cout": "or", "s": "buf"}
    EDGES = [("x", "x_y_ha_x"), ("y", "x_y_ha_y"), ("x_y_ha_x", "x_y_ha_c"), ("x_y_ha_y", "x_y_ha_c"), ("x_y_ha_x", "x_y_ha_s"), ("x_y_ha_y", "x_y_ha_s"),
             ("x_y_ha_s", "cin_s_ha_x"), ("cin", "cin_s_ha_y"), ("cin_s_ha_x", "cin_s_ha_c"), ("cin_s_ha_y", "cin_s_ha_c"),
             ("cin_s_ha_x", "cin_s_ha_s"), ("cin_s_ha_y", "cin_s_ha_s"), ("x_y_ha_c", "cout"), ("cin_s_ha_c", "cout"), ("cin_s_ha_s", "s")]

    def cut_structure(ex_, st):
        """the circuit built, as a concrete netlist (proved from the callee contracts, then used for the truth table)"""
        g = st.g(st.env["c"])
        t, u, v = ctx.fresh_name("ct"), ctx.fresh_name("cu"), ctx.fresh_name("cv")
        facts = [("netlist:nodes", z3.ForAll([t], g.node(t) == z3.Or([t == L(n) for n in NODES]))),
                 ("netlist:edges", z3.ForAll([u, v], g.edge(u, v) == z3.Or([z3.And(u == L(a), v == L(b)) for a, b in EDGES])))]
        for n, ty_ in NODES.items():
            facts.append((f"netlist:type:{n}", z3.And(z3.Select(g.hasty, L(n)), z3.Select(g.ty, L(n)) == T[ty_])))
            facts.append((f"netlist:output:{n}", z3.And(z3.Select(g.hasout, L(n)), z3.Select(g.out, L(n)) == z3.BoolVal(n in ("s", "cout")))))
        facts.append(("netlist:attributes-on-nodes", z3.ForAll([t], z3.Implies(z3.Or(z3.Select(g.hasty, t), z3.Select(g.hasout, t)), g.node(t)))))
        return {"forget": ("N!", "FI!", "hasty!", "hasout!", "ty!", "out!", "bbdom!", "bbval!"), "facts": facts}
    ex.cuts = {("node", id(fn.body[-2])): cut_structure}
    outs = verify.bind_and_run(ex, fn, st0, {})
    n_ret = 0
    for o in outs:
        i = o.st.pathid()
        if o.kind == "raise":
            ctx.oblige(f"full_adder/never-raises#{i}", o.st.pc, z3.BoolVal(False), "post")
            continue
        n_ret += 1
        g = o.st.g(o.value)
        x = ctx.fresh_name("hx")
        mu = models.mu_of(ex)
        val = lambda n: z3.Select(mu, ctx.Obj.nm(n))
        is_out = lambda n: z3.And(z3.Select(g.hasout, n), z3.Select(g.out, n))
        cons = spec.consistent(ctx, ex, g, mu)
        a, b, c_ = val(L("x")), val(L("y")), val(L("cin"))
        posts = {
            "inputs={x,y,cin}": z3.ForAll([x], z3.And(g.node(x), z3.Select(g.ty, x) == T["input"]) == z3.Or(x == L("x"), x == L("y"), x == L("cin"))),
            "outputs={s,cout}": z3.ForAll([x], z3.And(g.node(x), is_out(x)) == z3.Or(x == L("s"), x == L("cout"))),
            "sum": z3.Implies(cons, val(L("s")) == z3.Xor(z3.Xor(a, b), c_)),
            "carry": z3.Implies(cons, val(L("cout")) == z3.Or(z3.And(a, b), z3.And(a, c_), z3.And(b, c_))),
            "wired(C07 clauses)": z3.And(g.wf(ctx), spec.typed(ctx, g), spec.wired_edges(ctx, g)),
        }
        for k, f in posts.items():
            ctx.oblige(f"full_adder/post#{i}:{k}", o.st.pc, f, "post")
    ctx.oblige("full_adder/cover:returns", [], z3.BoolVal(n_ret > 0), "cover")
    return info


TASKS["C13/half_adder[body == contract]"] = half_adder_refines
TASKS["C13/full_adder"] = full_adder_task
