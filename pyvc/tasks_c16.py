"""C16: Circuit.remove_unloaded -- postconditions from the property statement, proved on the real body with the
worklist invariant of DESIGN section 8 (both values of `inputs` at once: the flag is a symbolic Boolean)."""
import z3

from contracts import layer1
from pyvc import engine, spec, verify
from pyvc.engine import State
from pyvc.exec import Coll, Exec

F = layer1.F
QUAL = "Circuit.remove_unloaded"


def task(ctx):
    fn, seg, sha = engine.find_function(F, QUAL)
    info = {"function": f"{F}::{QUAL}", "sha256": sha, "lines": engine.abs_lines(fn), "variants": ["inputs: symbolic bool"]}
    T = ctx.tval
    st0 = State({}, {}, [])
    holder = {}

    def prot(g0, flag, x):
        t = z3.Select(g0.ty, x)
        return z3.Or(z3.And(z3.Select(g0.hasout, x), z3.Select(g0.out, x)), t == T["bb_input"],
                     z3.And(z3.Not(flag), z3.Or(t == T["input"], t == T["bb_output"])))

    def outer_inv(ex, stx):
        me, g0, flag = holder["me"], holder["g0"], holder["flag"]
        g = stx.g(me)
        unl, rem = stx.env["unloaded"], stx.env["removed"]
        x, y = ctx.fresh_name("ix"), ctx.fresh_name("iy")
        nofo = lambda gg, n: z3.Not(z3.Exists([y], gg.edge(n, y)))
        return z3.And(
            # (a) the graph is the sub-graph of the original induced by the surviving nodes, attributes untouched
            z3.ForAll([x], z3.Implies(g.node(x), g0.node(x))),
            z3.ForAll([x, y], g.edge(x, y) == z3.And(g0.edge(x, y), g.node(x), g.node(y))),
            z3.ForAll([x], z3.Implies(g.node(x), z3.And(z3.Select(g.hasty, x), z3.Select(g.ty, x) == z3.Select(g0.ty, x),
                                                       z3.Select(g.hasout, x) == z3.Select(g0.hasout, x), z3.Select(g.out, x) == z3.Select(g0.out, x)))),
            # (b) `removed` lists exactly the deleted nodes, once each
            z3.ForAll([x], rem.count(x) == z3.If(z3.And(g0.node(x), z3.Not(g.node(x))), 1, 0)),
            # (c) worklist: distinct, present, unprotected, without load
            z3.ForAll([x], z3.And(unl.count(x) <= 1, unl.count(x) >= 0)),
            z3.ForAll([x], z3.Implies(unl.mem(x), z3.And(g.node(x), z3.Not(prot(g0, flag, x)), nofo(g, x)))),
            # (d) every unprotected load-free node is on the worklist
            z3.ForAll([x], z3.Implies(z3.And(g.node(x), z3.Not(prot(g0, flag, x)), nofo(g, x)), unl.mem(x))),
            # (e) a deleted node was unprotected and all its original loads are deleted too (premises of M2)
            z3.ForAll([x], z3.Implies(z3.And(g0.node(x), z3.Not(g.node(x))), z3.Not(prot(g0, flag, x)))),
            z3.ForAll([x, y], z3.Implies(z3.And(g0.node(x), z3.Not(g.node(x)), g0.edge(x, y)), z3.Not(g.node(y)))),
        )

    def outer(ex, s, st, it, ordinal):
        return ex.invariant_while(s, st, ordinal, outer_inv, mod_locals=["unloaded", "removed"], mod_objs=[holder["me"]], label="worklist")

    def inner(ex, s, st, it, ordinal):
        me, g0, flag = holder["me"], holder["g0"], holder["flag"]
        g = st.g(me)
        unl0 = st.env["unloaded"]
        n = ex.name_term(st.env["n"])

        def inv(ex, stx, done):
            unl = stx.env["unloaded"]
            x, y = ctx.fresh_name("jx"), ctx.fresh_name("jy")
            t = lambda v: z3.Select(g.ty, v)
            cond = lambda v: z3.And(z3.Not(z3.And(z3.Not(flag), z3.Or(t(v) == T["input"], t(v) == T["bb_output"]))),
                                    z3.Not(z3.And(z3.Select(g.hasout, v), z3.Select(g.out, v))),
                                    z3.ForAll([y], z3.Implies(g.edge(v, y), y == n)))
            return z3.ForAll([x], unl.count(x) == unl0.count(x) + z3.If(z3.And(done.mem(x), cond(x)), 1, 0))
        return ex.invariant_for(s, st, it, ordinal, inv, mod_locals=["unloaded"], label="fanin-scan")

    ex = Exec(ctx, summaries=dict(layer1.SUMMARIES), module_consts=engine.module_constants(F), loop_specs={1: outer, 2: inner}, fname=QUAL)
    me = verify.mk_circuit(ex, st0, "self")
    g0 = st0.g(me)
    flag = verify.note_arg(ex, "inputs", ctx.fresh("inputs", z3.BoolSort()))
    holder.update(me=me, g0=g0, flag=flag)
    st0.pc.append(spec.typed(ctx, g0))
    st0.pc.append(spec.wired_edges(ctx, g0))
    outs = verify.bind_and_run(ex, fn, st0, {"self": me, "inputs": flag})
    x, y = ctx.fresh_name("px"), ctx.fresh_name("py")
    for i, o in enumerate(outs):
        i = o.st.pathid()
        if o.kind != "return":
            ctx.oblige(f"{QUAL}/post#{i}:never-raises({o.exc})", o.st.pc, z3.BoolVal(False), "post")
            continue
        g = o.st.g(me)
        res = ex.as_coll(o.value)
        deleted = lambda n: z3.And(g0.node(n), z3.Not(g.node(n)))
        nofo = lambda gg, n: z3.Not(z3.Exists([y], gg.edge(n, y)))
        posts = {
            "returns-exactly-the-deleted-nodes-once": z3.ForAll([x], res.count(x) == z3.If(deleted(x), 1, 0)),
            "never-deletes-a-protected-node": z3.ForAll([x], z3.Implies(deleted(x), z3.Not(prot(g0, flag, x)))),
            "deleted-nodes-have-only-deleted-loads(M2-premise)": z3.ForAll([x, y], z3.Implies(z3.And(deleted(x), g0.edge(x, y)), deleted(y))),
            "no-node-added": z3.ForAll([x], z3.Implies(g.node(x), g0.node(x))),
            "survivors-keep-type-and-output-mark": z3.ForAll([x], z3.Implies(g.node(x), z3.And(
                z3.Select(g.hasty, x), z3.Select(g.ty, x) == z3.Select(g0.ty, x),
                z3.Select(g.hasout, x) == z3.Select(g0.hasout, x), z3.Select(g.out, x) == z3.Select(g0.out, x)))),
            "survivors-keep-their-fanin": z3.ForAll([x, y], z3.Implies(g.node(y), g.edge(x, y) == g0.edge(x, y))),
            "fixpoint:no-unprotected-loadfree-node-left(M2-premise)": z3.ForAll([x], z3.Implies(z3.And(g.node(x), z3.Not(prot(g0, flag, x))), z3.Not(nofo(g, x)))),
            "graph-invariant": g.wf(ctx),
            "registry-untouched": o.st.bb(me).same(st0.bb(me), ctx),
        }
        for k, f in posts.items():
            ctx.oblige(f"{QUAL}/post#{i}:{k}", o.st.pc, f, "post")
    return info


TASKS = {"C16/remove_unloaded": task}
