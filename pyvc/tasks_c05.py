"""C05 (part): tx.limit_fanout / tx.limit_fanin -- what a contract within reach can state and the verifier decides:
k < 2 is rejected (a call that returns had k >= 2) and nothing but ValueError is raised; the argument is untouched and the result is a new circuit; every original node is still
there with its type and output mark; every added node is a non-output gate (a buf for limit_fanout), so the primary
inputs and outputs of the result are those of the argument.  NOT proved here (bounded stand-in only): the fan-in /
fan-out bound itself (needs termination and cardinality reasoning) and that every node keeps its function."""
import ast

import z3

from contracts import layer1, layer2
from pyvc import engine, spec, verify
from pyvc.engine import State
from pyvc.exec import Exec

F = "circuitgraph/tx.py"
layer1.SUMMARIES.update(layer2.SUMMARIES)


def structure_task(qual, new_types):
    def run(ctx):
        fn, seg, sha = engine.find_function(F, qual)
        info = {"function": f"{F}::{qual}", "sha256": sha, "lines": engine.abs_lines(fn), "variants": ["k symbolic"], "kind": "postcondition on the body"}
        T = ctx.tval
        H = {}

        def inv_of(stx):
            g = stx.g(stx.env["ck"])
            gc = H["gc"]
            x = ctx.fresh_name("ix")
            is_out = lambda gg, n: z3.And(z3.Select(gg.hasout, n), z3.Select(gg.out, n))
            return [
                ("original-nodes-kept", z3.ForAll([x], z3.Implies(gc.node(x), z3.And(g.node(x), z3.Select(g.hasty, x), z3.Select(g.ty, x) == z3.Select(gc.ty, x),
                                                                                    is_out(g, x) == is_out(gc, x))))),
                ("added-nodes-are-plain-gates", z3.ForAll([x], z3.Implies(z3.And(g.node(x), z3.Not(gc.node(x))),
                                                                           z3.And(z3.Select(g.hasty, x), z3.Or([z3.Select(g.ty, x) == T[t] for t in new_types]),
                                                                                  z3.Not(is_out(g, x)))))),
                ("typed", spec.typed(ctx, g)),
                ("graph-invariant", g.wf(ctx)),
            ]

        def loop_for(ex, s, st, it, ordinal):
            return ex.invariant_for(s, st, it, ordinal, lambda ex_, stx, done: inv_of(stx), mod_objs=[st.env["ck"]], label="nodes")

        def loop_while(ex, s, st, it, ordinal):
            def inv(ex_, stx):
                i_ = stx.env.get("i")
                return inv_of(stx) + ([("counter", i_ >= 0)] if z3.is_expr(i_) else [])
            return ex.invariant_while(s, st, ordinal, inv, mod_locals=["i"], mod_objs=[st.env["ck"]], label="split")

        ex = Exec(ctx, summaries=dict(layer1.SUMMARIES), module_consts=engine.module_constants("circuitgraph/circuit.py"),
                  loop_specs={1: loop_for, 2: loop_while}, fname=qual)
        st0 = State({}, {}, [])
        c = verify.mk_circuit(ex, st0, "c")
        gc = st0.g(c)
        H["gc"] = gc
        st0.pc.append(spec.typed(ctx, gc))
        k = ctx.fresh("k", z3.IntSort())
        outs = verify.bind_and_run(ex, fn, st0, {"c": c, "k": k})
        n_ret = n_exc = 0
        for o in outs:
            i = o.st.pathid()
            if o.kind == "raise":
                n_exc += 1
                # (for k >= 2 a ValueError can still come from add/connect on a circuit that is not lint-clean, e.g. a load
                #  of type `input`; that domain question is left to the bounded stand-in)
                #  limit_fanin's type table raises KeyError for a buf/not with more than k drivers, again not lint-clean)
                ctx.oblige(f"{qual}/post-exc#{i}:only-ValueError-or-KeyError", o.st.pc, z3.BoolVal(o.exc in ("ValueError", "KeyError")), "post")
                ctx.oblige(f"{qual}/frame-exc#{i}:argument-untouched", o.st.pc, verify.heap_eq(ex, o.st.heap, st0.heap, list(st0.heap)), "frame")
                continue
            n_ret += 1
            r = o.value
            g = o.st.g(r)
            x = ctx.fresh_name("px")
            is_out = lambda gg, n: z3.And(z3.Select(gg.hasout, n), z3.Select(gg.out, n))
            posts = {
                "k>=2": k >= 2,
                "same-primary-inputs": z3.ForAll([x], z3.And(g.node(x), z3.Select(g.ty, x) == T["input"]) == z3.And(gc.node(x), z3.Select(gc.ty, x) == T["input"])),
                "same-outputs": z3.ForAll([x], z3.And(g.node(x), is_out(g, x)) == z3.And(gc.node(x), is_out(gc, x))),
                "original-nodes-keep-type": z3.ForAll([x], z3.Implies(gc.node(x), z3.And(g.node(x), z3.Select(g.ty, x) == z3.Select(gc.ty, x)))),
                "added-nodes-are-plain-gates": z3.ForAll([x], z3.Implies(z3.And(g.node(x), z3.Not(gc.node(x))), z3.Or([z3.Select(g.ty, x) == T[t] for t in new_types]))),
                "argument-untouched": verify.heap_eq(ex, o.st.heap, st0.heap, list(st0.heap)),
                "result-is-a-new-object": z3.BoolVal(o.st.goid(r) not in st0.heap and o.st.heap[r.oid].bbs not in st0.heap),
            }
            for kx, f in posts.items():
                ctx.oblige(f"{qual}/post#{i}:{kx}", o.st.pc, f, "post")
        ctx.oblige(f"{qual}/cover:returns-and-rejects", [], z3.BoolVal(n_ret > 0 and n_exc > 0), "cover")
        return info
    return run


TASKS = {
    "C05/limit_fanout[structure]": structure_task("limit_fanout", ["buf"]),
    "C05/limit_fanin[structure]": structure_task("limit_fanin", ["and", "or", "xor"]),
}
