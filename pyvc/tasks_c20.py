"""C20: utils.lint raises ValueError exactly when a documented rule is violated (all 16 flag combinations at once:
the four flags are symbolic Booleans), raises nothing else and does not touch the circuit."""
import z3

from contracts import layer1
from pyvc import engine, spec, verify
from pyvc.engine import State
from pyvc.exec import Exec

F = "circuitgraph/utils.py"
QUAL = "lint"
ZERO = ["input", "0", "1", "x", "bb_output"]
SINGLE = ["buf", "not", "bb_input"]
MULTI = ["and", "nand", "or", "nor", "xor", "xnor"]


def task(ctx):
    fn, seg, sha = engine.find_function(F, QUAL)
    info = {"function": f"{F}::{QUAL}", "sha256": sha, "lines": engine.abs_lines(fn), "variants": ["all four flags symbolic"]}
    T = ctx.tval
    H = {}
    consts = engine.module_constants("circuitgraph/circuit.py")

    def tin(t, L):
        return z3.Or([t == T[k] for k in L])

    def V(ex, g, bb, x):
        """node x violates a rule of C20 (flags: H['fl'])"""
        ff, unl, und, sig = H["fl"]
        y, z = ctx.fresh_name("vy"), ctx.fresh_name("vz")
        t = z3.Select(g.ty, x)
        fi1 = z3.Exists([y], g.edge(y, x))
        fi2 = z3.Exists([y, z], z3.And(y != z, g.edge(y, x), g.edge(z, x)))
        fo1 = z3.Exists([y], g.edge(x, y))
        fo2 = z3.Exists([y, z], z3.And(y != z, g.edge(x, y), g.edge(x, z)))
        rules = Vrules(ex, g, bb, x)
        return z3.Or([f for _, f in rules])

    def Vrules(ex, g, bb, x):
        ff, unl, und, sig = H["fl"]
        y, z = ctx.fresh_name("vy"), ctx.fresh_name("vz")
        t = z3.Select(g.ty, x)
        fi1 = z3.Exists([y], g.edge(y, x))
        fi2 = z3.Exists([y, z], z3.And(y != z, g.edge(y, x), g.edge(z, x)))
        fo1 = z3.Exists([y], g.edge(x, y))
        fo2 = z3.Exists([y, z], z3.And(y != z, g.edge(x, y), g.edge(x, z)))
        names = ["untyped", "unsupported-type", "dotted-name-without-instance", "fanin-on-source", "bb_output-load", "multi-driver",
                 "undriven", "single-input-gate", "unloaded"]
        return list(zip(names, _V_list(ex, g, bb, x, t, fi1, fi2, fo1, fo2, ff, unl, und, sig, y)))

    def _V_list(ex, g, bb, x, t, fi1, fi2, fo1, fo2, ff, unl, und, sig, y):
        return (
            z3.Not(z3.Select(g.hasty, x)),
            z3.Not(tin(t, engine.SUPPORTED)),
            z3.And(ex.has_dot(x), z3.Not(z3.Select(bb.dom, ex.dot_prefix(x)))),
            z3.And(tin(t, ZERO), fi1),
            z3.And(t == T["bb_output"], z3.Or(fo2, z3.Exists([y], z3.And(g.edge(x, y), z3.Not(z3.And(z3.Select(g.hasty, y), z3.Select(g.ty, y) == T["buf"])))))),
            z3.And(tin(t, SINGLE), fi2),
            z3.And(und, tin(t, SINGLE + MULTI), z3.Not(fi1)),
            z3.And(sig, tin(t, MULTI), z3.Not(fi2)),
            z3.And(unl, z3.Not(z3.And(z3.Select(g.hasout, x), z3.Select(g.out, x))), z3.Not(fo1)))

    def Rin(g, bb, pin, i, p):
        n = pin(i, p)
        return z3.And(ctx.bb_in(z3.Select(bb.val, i), p), z3.Not(z3.And(g.node(n), z3.Select(g.hasty, n), z3.Select(g.ty, n) == T["bb_input"])))

    def Rout(g, bb, pin, i, p):
        n = pin(i, p)
        return z3.And(ctx.bb_out(z3.Select(bb.val, i), p), z3.Not(z3.And(g.node(n), z3.Select(g.hasty, n), z3.Select(g.ty, n) == T["bb_output"])))

    def R(g, bb, pin, i):
        p, q = ctx.fresh_name("rp"), ctx.fresh_name("rq")
        return z3.Or(z3.Exists([p], Rin(g, bb, pin, i, p)), z3.Exists([q], Rout(g, bb, pin, i, q)))

    def E(ex, stx):
        return ex.truthy(stx.env["errors"])

    def any_node_violation(ex, g, bb, within=None):
        x = ctx.fresh_name("ax")
        dom = (lambda n: g.node(n)) if within is None else (lambda n: within.mem(n))
        return z3.Exists([x], z3.And(dom(x), V(ex, g, bb, x)))

    def loop_nodes(ex, s, st, it, ordinal):
        c = H["c"]
        def inv(ex, stx, done):
            g, bb = stx.g(c), stx.bb(c)
            ff = H["fl"][0]
            some = any_node_violation(ex, g, bb, done)
            x = ctx.fresh_name("rx")
            per_rule = [(nm, z3.Exists([x], z3.And(done.mem(x), f))) for nm, f in Vrules(ex, g, bb, x)]
            return ([("errors=>violation", z3.Implies(E(ex, stx), z3.And(z3.Not(ff), some)))] +
                    [(f"{nm}=>errors", z3.Implies(z3.And(z3.Not(ff), f), E(ex, stx))) for nm, f in per_rule] +
                    [(f"fail_fast=>no-{nm}-so-far", z3.Implies(ff, z3.Not(f))) for nm, f in per_rule])
        return ex.invariant_for(s, st, it, ordinal, inv, mod_locals={"errors": "errlist"}, label="nodes")

    def loop_insts(ex, s, st, it, ordinal):
        c = H["c"]
        def inv(ex, stx, done):
            g, bb = stx.g(c), stx.bb(c)
            ff = H["fl"][0]
            i = ctx.fresh_name("li")
            some = z3.Or(any_node_violation(ex, g, bb), z3.Exists([i], z3.And(done.mem(i), R(g, bb, H["pin"], i))))
            return [("errors=>violation", z3.Implies(E(ex, stx), z3.And(z3.Not(ff), some))),
                    ("violation=>errors", z3.Implies(z3.And(z3.Not(ff), some), E(ex, stx))),
                    ("fail_fast=>none-so-far", z3.Implies(ff, z3.Not(some)))]
        return ex.invariant_for(s, st, it, ordinal, inv, mod_locals={"errors": "errlist"}, label="instances")

    def loop_pins(which):
        def spec_(ex, s, st, it, ordinal):
            c = H["c"]
            E0 = E(ex, st)
            inst = ex.name_term(st.env["name"])
            def inv(ex, stx, done):
                g, bb = stx.g(c), stx.bb(c)
                ff = H["fl"][0]
                p = ctx.fresh_name("lp")
                rel = Rin if which == "in" else Rout
                some = z3.Exists([p], z3.And(done.mem(p), rel(g, bb, H["pin"], inst, p)))
                return [("errors=>violation", z3.Implies(E(ex, stx), z3.Or(E0, z3.And(z3.Not(ff), some)))),
                        ("violation=>errors", z3.Implies(z3.Or(E0, z3.And(z3.Not(ff), some)), E(ex, stx))),
                        ("fail_fast=>none-so-far", z3.Implies(ff, z3.Not(some)))]
            return ex.invariant_for(s, st, it, ordinal, inv, mod_locals={"errors": "errlist"}, label=f"{which}put-pins")
        return spec_

    ex = Exec(ctx, summaries=dict(layer1.SUMMARIES), module_consts=consts,
              loop_specs={1: loop_nodes, 2: loop_insts, 3: loop_pins("in"), 4: loop_pins("out")}, fname=QUAL)
    st0 = State({}, {}, [])
    c = verify.mk_circuit(ex, st0, "c")
    H["c"] = c
    H["pin"] = ctx.template(("", ".", ""))
    H["fl"] = [ctx.fresh(nm, z3.BoolSort()) for nm in ("fail_fast", "unloaded", "undriven", "single_input_gates")]
    ff, unl, und, sig = H["fl"]
    g0, bb0 = st0.g(c), st0.bb(c)
    # every recorded blackbox value is keyed in the registry: (bb_in/bb_out are total functions of the BlackBox object)
    outs = verify.bind_and_run(ex, fn, st0, {"c": c, "fail_fast": ff, "unloaded": unl, "undriven": und, "single_input_gates": sig})
    i = ctx.fresh_name("pi")
    violated = z3.Or(any_node_violation(ex, g0, bb0), z3.Exists([i], z3.And(z3.Select(bb0.dom, i), R(g0, bb0, H["pin"], i))))
    n_ret = n_raise = 0
    for k, o in enumerate(outs):
        k = o.st.pathid()
        if o.kind == "raise":
            n_raise += 1
            ctx.oblige(f"{QUAL}/post-exc#{k}:raises-only-ValueError", o.st.pc, z3.BoolVal(o.exc == "ValueError"), "post-exc", )
            ctx.oblige(f"{QUAL}/post-exc#{k}:raises-only-when-a-rule-is-violated", o.st.pc, violated, "post-exc")
        else:
            n_ret += 1
            ctx.oblige(f"{QUAL}/post#{k}:returns-only-when-no-rule-is-violated", o.st.pc, z3.Not(violated), "post")
        ctx.oblige(f"{QUAL}/frame#{k}:circuit-untouched", o.st.pc, verify.heap_eq(ex, o.st.heap, st0.heap, list(st0.heap)), "frame")
    ctx.oblige(f"{QUAL}/cover:has-normal-and-raising-paths", [], z3.BoolVal(n_ret > 0 and n_raise > 0), "cover")
    return info


TASKS = {"C20/lint": task}
