"""pyvc verification driver pieces: set-up of symbolic arguments, running bodies and summaries,
refinement VCs (body == contract), solving with a small portfolio."""
import ast
import itertools
import os
import subprocess
import tempfile
import time

import z3

from pyvc import engine, spec
from pyvc.engine import (NONE, BBDict, CircuitRec, Ctx, Graph, NameV, NoneV, ObjRef, Out, State, StrLit, TupleV, TypeV,
                         Unsupported, alloc)
from pyvc.exec import BBVal, Coll, Exec, PairSet, _Split

B = z3.BoolSort()


def mk_circuit(ex, st, tag, wf=True):
    g = Graph.fresh(ex.ctx, tag)
    goid = alloc(st, g, tag + "_graph")
    boid = alloc(st, BBDict.fresh(ex.ctx, tag), tag + "_bbs")
    ref = ObjRef(alloc(st, CircuitRec(goid, boid, NameV(ex.ctx.fresh_name(tag + "_name"))), tag), "Circuit")
    # symbolic inputs of the variant being set up (used to turn a counter-model into a concrete input, pyvc/replay.py)
    ins = getattr(ex.ctx, "_inputs", None)
    if ins is None or tag in ins["circuits"] or ins.get("ex") is not ex:
        ins = {"circuits": {}, "args": {}, "ex": ex}
        ex.ctx._inputs = ins
    ins["circuits"][tag] = (g, st.heap[boid])
    if wf:
        st.pc.append(g.wf(ex.ctx))
    return ref


def note_arg(ex, tag, value):
    ins = getattr(ex.ctx, "_inputs", None)
    if ins is not None and ins.get("ex") is ex:
        ins["args"][tag] = value
    return value


def mk_names(ex, tag, is_list=True):
    """an arbitrary finite collection of names (list: multiset with unknown order)."""
    return note_arg(ex, tag, _mk_names(ex, tag, is_list))


def _mk_names(ex, tag, is_list=True):
    ctx = ex.ctx
    if is_list:
        arr = ctx.fresh(tag + "_cnt", z3.ArraySort(ctx.Name, z3.IntSort()))
        x = ctx.fresh_name("mx")
        ctx.axioms.append(z3.ForAll([x], z3.Select(arr, x) >= 0))
        return Coll.from_cnt_array(arr)
    return Coll.from_array(ctx.arr_nb(tag + "_set"))


def bind_and_run(ex, fn, st, bindings):
    """run the body of FunctionDef `fn` with parameters bound; unbound parameters take their (literal) defaults."""
    args = fn.args
    params = [a.arg for a in args.args]
    defaults = dict(zip(params[len(params) - len(args.defaults):], args.defaults))
    st = st.fork()
    for p in params:
        if p in bindings:
            st.env[p] = bindings[p]
        elif p in defaults:
            if isinstance(defaults[p], (ast.Dict, ast.List, ast.Set, ast.Call, ast.ListComp, ast.DictComp, ast.SetComp)):
                # evaluated once at definition time and shared by all calls: state that survives between calls
                raise Unsupported(f"parameter {p} has a mutable default value: outside the verified subset")
            st.env[p] = ex.ev(defaults[p], st)
        else:
            raise Unsupported(f"parameter {p} unbound")
    for k, v in bindings.items():
        if k not in params:
            st.env[k] = v  # names the body obtains through `import` (bound to assumed contracts)
    ex.loop_ordinal = 0
    loops = [n for n in ast.walk(fn) if isinstance(n, (ast.For, ast.While))]
    loops.sort(key=lambda n: (n.lineno, n.col_offset))
    ex.loop_index = {id(n): k + 1 for k, n in enumerate(loops)}
    return ex.run_block(fn.body, st)


def run_summary(ex, summary, st, recv, args, kwargs):
    """all outcomes of a split-style summary from state st"""
    outs = ex.explore(st, lambda s: summary(ex, s, recv, list(args), dict(kwargs), None))
    return [Out("return", o.st, o.value) if o.kind == "value" else o for o in outs]


# ------------------------------------------------------------------ equality of outcomes
def value_eq(ex, a, b):
    ctx = ex.ctx
    if isinstance(a, NoneV) and isinstance(b, NoneV):
        return z3.BoolVal(True)
    if isinstance(a, (NameV, StrLit)) and isinstance(b, (NameV, StrLit)):
        return ex.name_term(a) == ex.name_term(b)
    if isinstance(a, TypeV) or isinstance(b, TypeV):
        return ex.type_term(a) == ex.type_term(b)
    if isinstance(a, Coll) and isinstance(b, Coll):
        x = ctx.fresh_name("vx")
        if a.is_list and b.is_list and (a.cnt is not None or b.cnt is not None):
            return z3.ForAll([x], a.count(x) == b.count(x))
        return z3.ForAll([x], a.mem(x) == b.mem(x))
    if isinstance(a, PairSet) and isinstance(b, PairSet):
        x, y = ctx.fresh_name("vx"), ctx.fresh_name("vy")
        return z3.ForAll([x, y], a.mem(x, y) == b.mem(x, y))
    if isinstance(a, bool) and isinstance(b, bool):
        return z3.BoolVal(a == b)
    if (z3.is_expr(a) or isinstance(a, (bool, int))) and (z3.is_expr(b) or isinstance(b, (bool, int))):
        ta = a if z3.is_expr(a) else (z3.BoolVal(a) if isinstance(a, bool) else z3.IntVal(a))
        tb = b if z3.is_expr(b) else (z3.BoolVal(b) if isinstance(b, bool) else z3.IntVal(b))
        return ta == tb
    if isinstance(a, ObjRef) and isinstance(b, ObjRef):
        ha, hb = getattr(ex, "_cmp_heaps", (None, None))
        if ha is None or a.oid not in ha or b.oid not in hb:
            return z3.BoolVal(True)  # pre-existing objects are compared through the heap
        ra, rb = ha[a.oid], hb[b.oid]
        if isinstance(ra, CircuitRec) and isinstance(rb, CircuitRec):
            # a returned (new) circuit: same graph view, same registry, same name
            return z3.And(ha[ra.graph].same(hb[rb.graph], ctx), ha[ra.bbs].same(hb[rb.bbs], ctx), value_eq(ex, ra.name, rb.name))
        if isinstance(ra, Graph) and isinstance(rb, Graph):
            return ra.same(rb, ctx)
        return z3.BoolVal(True)
    if isinstance(a, TupleV) and isinstance(b, TupleV) and len(a.items) == len(b.items):
        return z3.And([value_eq(ex, x, y) for x, y in zip(a.items, b.items)])
    raise Unsupported(f"cannot compare results {a!r} / {b!r}")


def heap_eq_parts(ex, h1, h2, oids):
    """list of (label, formula): one conjunct per view component, so that each becomes its own small VC"""
    parts = []
    for oid in oids:
        r1, r2 = h1[oid], h2[oid]
        tag = oid.split("#")[0]
        if isinstance(r1, Graph):
            for f in Graph.FIELDS:
                parts.append((f"{tag}.{f}", r1.same(r2, ex.ctx, fields=[f])))
        elif isinstance(r1, BBDict):
            parts.append((f"{tag}.registry", r1.same(r2, ex.ctx)))
        elif isinstance(r1, CircuitRec):
            if r1.graph != r2.graph or r1.bbs != r2.bbs:
                parts.append((f"{tag}.identity", z3.BoolVal(False)))
        elif isinstance(r1, dict) and r1.get("kind") in ("CNF", "Solver"):
            o = ex.ctx.fresh("ho", ex.ctx.Obj)
            parts.append((f"{tag}.clauses", r1["sat"] == r2["sat"]))
            parts.append((f"{tag}.variables", z3.ForAll([o], z3.Select(r1["men"], o) == z3.Select(r2["men"], o))))
    return parts


def heap_eq(ex, h1, h2, oids):
    parts = heap_eq_parts(ex, h1, h2, oids)
    return z3.And([f for _, f in parts]) if parts else z3.BoolVal(True)


def _mentions(f, c):
    from pyvc.exec import _consts_of
    return any(c.eq(k) for k in _consts_of(f))


def split_defs(ex, pc, base):
    defs, conds = [], []
    for f in pc[base:]:
        (defs if f.get_id() in ex.ctx.def_ids else conds).append(f)
    return defs, conds


def refine_vcs(ex, label, st0, body_outs, spec_outs):
    """every outcome of the body is an outcome the contract allows, with the same state and result."""
    base = len(st0.pc)
    oids = list(st0.heap)
    spec_defs = []
    for s in spec_outs:
        d, _ = split_defs(ex, s.st.pc, base)
        spec_defs.extend(d)
    for i, b in enumerate(body_outs):
        i = b.st.pathid()
        kind = "raise" if b.kind == "raise" else "return"
        alts = []
        cands = [s for s in spec_outs if s.kind == kind and (kind != "raise" or s.exc == b.exc)]
        what = f"{kind}" + (f"({b.exc})" if kind == "raise" else "")
        ec = []
        for s in cands:
            for c in s.st.env.get("__exist__", []):
                if not any(c.eq(k) for k in ec):
                    ec.append(c)
        if len(cands) > 1 and not ec and getattr(ex, "select_candidates", False):
            # (opt-in per task) several contract outcomes of this kind: they are separated by their conditions; find the one whose
            # condition this body path implies (cheap pre-check) and compare with that one component by component
            for s in cands:
                _, conds = split_defs(ex, s.st.pc, base)
                sol = z3.Solver()
                sol.add(ex.ctx.axioms)
                sol.add(b.st.pc + spec_defs)
                sol.add(z3.Not(z3.And(conds) if conds else z3.BoolVal(True)))
                if hard_check(sol, int(os.environ.get("PYVC_SELECT_MS", "4000" if kind == "return" else "400"))) == z3.unsat:
                    cands = [s]
                    break
        if len(cands) == 1 and not ec:
            # the common case: one contract alternative of this kind -> one small VC per view component
            s = cands[0]
            _, conds = split_defs(ex, s.st.pc, base)
            ex.ctx.oblige(f"{label}/refines#{i}:{what}:condition", b.st.pc + spec_defs, z3.And(conds) if conds else z3.BoolVal(True), "refines")
            for lab, f in heap_eq_parts(ex, b.st.heap, s.st.heap, oids):
                ex.ctx.oblige(f"{label}/refines#{i}:{what}:{lab}", b.st.pc + spec_defs + conds, f, "refines")
            if kind == "return":
                bv = b.value if b.kind == "return" else NONE
                ex._cmp_heaps = (b.st.heap, s.st.heap)
                ex.ctx.oblige(f"{label}/refines#{i}:{what}:result", b.st.pc + spec_defs + conds, value_eq(ex, bv, s.value), "refines")
            continue
        if len(cands) > 1 and not ec and kind == "raise" and all(all(s.st.heap.get(o) is cands[0].st.heap.get(o) for o in oids) for s in cands):
            # all raising alternatives of the contract end in the very same state (all-or-nothing): no need to know
            # which one applies -- some alternative's condition holds, and the state equals that common state
            alts_c = []
            for s in cands:
                _, conds = split_defs(ex, s.st.pc, base)
                alts_c.append(z3.And(conds) if conds else z3.BoolVal(True))
            ex.ctx.oblige(f"{label}/refines#{i}:{what}:condition", b.st.pc + spec_defs, z3.Or(alts_c), "refines")
            for lab, f in heap_eq_parts(ex, b.st.heap, cands[0].st.heap, oids):
                ex.ctx.oblige(f"{label}/refines#{i}:{what}:{lab}", b.st.pc + spec_defs, f, "refines")
            continue
        for s in cands:
            _, conds = split_defs(ex, s.st.pc, base)
            try:
                same = [heap_eq(ex, b.st.heap, s.st.heap, oids)]
                if kind == "return":
                    bv = b.value if b.kind == "return" else NONE
                    same.append(value_eq(ex, bv, s.value))
            except Unsupported:
                continue
            alts.append(z3.And(conds + same))
        goal = z3.Or(alts) if alts else z3.BoolVal(False)
        if ec:
            goal = z3.Exists(ec, goal)  # witnesses of the contract's nondeterministic choices
        ex.ctx.oblige(f"{label}/refines#{i}:{what}", b.st.pc + spec_defs, goal, "refines")
    # completeness of raises: whenever the contract says it raises, the body does not return normally is implied by
    # determinism: each body outcome matched exactly one contract alternative under its own path condition.


# ------------------------------------------------------------------ solving
def expand_finite(f, ctx, memo):
    """replace every quantifier over the (finite, enumerated) Name sort by the conjunction/disjunction of its
    instances: the query becomes quantifier-free and z3 decides it (used for counter-models only)."""
    key = f.get_id()
    if key in memo:
        return memo[key][1]
    if z3.is_quantifier(f):
        n = f.num_vars()
        if all(f.var_sort(i) == ctx.Name for i in range(n)) and not f.is_lambda():
            # top-down: instantiate the outermost binder first (instances are closed), then expand inside each instance
            insts = []
            for combo in itertools.product(ctx.name_consts, repeat=n):
                insts.append(expand_finite(z3.substitute_vars(f.body(), *reversed(combo)), ctx, memo))
            r = z3.And(insts) if f.is_forall() else z3.Or(insts)
        else:
            r = f
    elif z3.is_app(f) and f.num_args() > 0:
        ch = [expand_finite(c, ctx, memo) for c in f.children()]
        r = f.decl()(*ch) if any(not a.eq(b) for a, b in zip(ch, f.children())) else f
    else:
        r = f
    memo[key] = (f, r)  # keep f alive: z3 re-uses the ids of collected terms
    return r


def hard_check(solver, timeout_ms):
    """solver.check() with z3's soft timeout AND a watchdog that interrupts the context (z3 does not always honour
    the soft timeout inside quantifier instantiation)"""
    import threading
    solver.set(timeout=int(timeout_ms))
    timer = threading.Timer(timeout_ms / 1000.0 * 1.3 + 2.0, lambda: z3.main_ctx().interrupt())
    timer.daemon = True
    timer.start()
    try:
        return solver.check()
    except z3.Z3Exception:
        return z3.unknown
    finally:
        timer.cancel()


def _tpl(parts, holes):
    """the string  parts[0] holes[0] parts[1] ... holes[-1] parts[-1]  over z3's theory of strings"""
    seq = []
    for k, p in enumerate(parts):
        if p:
            seq.append(z3.StringVal(p))
        if k < len(holes):
            seq.append(holes[k])
    if not seq:
        return z3.StringVal("")
    return seq[0] if len(seq) == 1 else z3.Concat(*seq)


def strfact_goal(fact):
    """the string fact behind an axiom over the uninterpreted Name sort, as a formula over real strings whose
    validity (for all values of its free constants) is what the axiom claims.  Returns a list of goals."""
    S = lambda n: z3.String(n)
    kind = fact[0]
    if kind == "inj":
        x, y = S("x"), S("y")
        return [z3.Implies(_tpl(fact[1], [x]) == _tpl(fact[1], [y]), x == y)]
    if kind == "inj-last-given-rest":
        parts = fact[1]
        xs = [S(f"x{k}") for k in range(len(parts) - 1)]
        y = S("y")
        return [z3.Implies(_tpl(parts, xs) == _tpl(parts, xs[:-1] + [y]), xs[-1] == y),
                z3.Implies(_tpl(parts, xs) == _tpl(parts, [y] + xs[1:]), xs[0] == y)]
    if kind == "disj":
        a, b = fact[1], fact[2]
        xs = [S(f"x{k}") for k in range(len(a) - 1)]
        ys = [S(f"y{k}") for k in range(len(b) - 1)]
        return [_tpl(a, xs) != _tpl(b, ys)]
    if kind == "lit":
        lit, parts = fact[1], fact[2]
        xs = [S(f"x{k}") for k in range(len(parts) - 1)]
        return [_tpl(parts, xs) != z3.StringVal(lit)]
    if kind == "assoc":
        a, b = fact[1], fact[2]
        xs = [S(f"x{k}") for k in range(len(a) - 1)]
        ys = [S(f"y{k}") for k in range(len(b) - 1)]
        lhs = _tpl(a, xs[:-1] + [_tpl(b, [xs[-1]] + ys[1:])])
        rhs = _tpl(b, [_tpl(a, xs)] + ys[1:])
        return [lhs == rhs]
    if kind == "lit-instance":
        lit, parts, mid = fact[1], fact[2], fact[3]
        return [_tpl(parts, [z3.StringVal(mid)]) == z3.StringVal(lit)]
    if kind == "same-head":
        a, b = fact[1], fact[2]
        h = S("h")
        xs = [S(f"x{k}") for k in range(len(a) - 2)]
        ys = [S(f"y{k}") for k in range(len(b) - 2)]
        return [_tpl(a, [h] + xs) != _tpl(b, [h] + ys)]
    raise ValueError(f"unknown string fact {fact!r}")


def add_strfact_obligations(ctx, task):
    """every string axiom the task's context introduced becomes an obligation over the theory of strings"""
    seen = set()
    for fact in list(ctx.strfacts):
        key = repr(fact)
        if key in seen:
            continue
        seen.add(key)
        for k, goal in enumerate(strfact_goal(fact)):
            ctx.oblige(f"{task}/strfact:{'|'.join(str(p) for p in fact)}#{k}", [], goal, "strfact")


def solve_strfact(ob, t0):
    s = z3.Solver()
    s.add(z3.Not(ob["goal"]))
    r = hard_check(s, 10000)
    res = {"id": ob["id"], "kind": ob["kind"], "time": 0.0, "solver": "z3-5.1(api, strings)"}
    if r == z3.unsat:
        res["status"] = "discharged"
    else:
        res["status"] = "refuted" if r == z3.sat else "unknown"
        res["detail"] = str(s.model())[:300] if r == z3.sat else s.reason_unknown()
        if r != z3.sat:
            try:
                with tempfile.NamedTemporaryFile("w", suffix=".smt2", delete=False) as f:
                    f.write("(set-logic QF_SLIA)\n" + s.to_smt2())
                    path = f.name
                p = subprocess.run(["/usr/bin/cvc5", "--strings-exp", "--tlimit=20000", "--lang=smt2", path], stdout=subprocess.PIPE, stderr=subprocess.PIPE, text=True, timeout=30)
                os.unlink(path)
                if p.stdout.strip().split("\n")[0] == "unsat":
                    res["status"], res["solver"] = "discharged", "cvc5-1.0.3 --strings-exp"
            except Exception:
                pass
    res["time"] = time.time() - t0
    return res


def goal_parts(g, depth=0):
    """G1 and G2  ->  [G1, G2];  forall x. (A and B)  ->  [forall x. A, forall x. B]   (each part is proved on its own:
    z3 was seen to answer `unknown` on a conjunction whose conjuncts it proves in milliseconds)"""
    if z3.is_and(g):
        out = []
        for c in g.children():
            out.extend(goal_parts(c, depth))
        return out
    if z3.is_quantifier(g) and g.is_forall() and depth < 3 and z3.is_and(g.body()):
        n = g.num_vars()
        vs = [z3.Const(f"{g.var_name(i)}", g.var_sort(i)) for i in range(n)]
        body = z3.substitute_vars(g.body(), *reversed(vs))
        out = []
        for c in body.children():
            for p in goal_parts(c, depth + 1):
                out.append(z3.ForAll(vs, p))
        return out
    return [g]


def hyp_key(h):
    """a name for a hypothesis that does not depend on the numbering of fresh constants"""
    import hashlib
    import re
    return hashlib.md5(re.sub(r"!\d+", "!", h.sexpr()).encode()).hexdigest()[:12]


def core_of(ctx, ob, budget_ms):
    """keys of the hypotheses in an unsat core of the (already discharged) obligation, or None"""
    keys = set()
    for p in goal_parts(ob["goal"]):
        s = z3.Solver()
        s.set(unsat_core=True)
        s.add(ctx.axioms)
        for i, h in enumerate(ob["hyps"]):
            s.assert_and_track(h, z3.Bool(f"__hyp{i}"))
        s.add(z3.Not(p))
        if hard_check(s, budget_ms) != z3.unsat:
            return None
        for c in s.unsat_core():
            keys.add(hyp_key(ob["hyps"][int(str(c)[5:])]))
    return sorted(keys)


def solve_with_hint(ctx, ob, timeout_ms, t0):
    """first attempt: only the hypotheses of the unsat core recorded in the lock file (a subset of the hypotheses,
    so a proof from them is a proof of the obligation); the small context makes the verdict independent of z3's
    search order.  Falls through (None) when that does not succeed."""
    hint = set(ob["hint"])
    sel = [h for h in ob["hyps"] if hyp_key(h) in hint]
    for p in goal_parts(ob["goal"]):
        s = z3.Solver()
        s.add(ctx.axioms)
        s.add(sel)
        s.add(z3.Not(p))
        if hard_check(s, min(timeout_ms, 5000)) != z3.unsat:
            return None
    return {"id": ob["id"], "kind": ob["kind"], "time": time.time() - t0, "status": "discharged",
            "solver": "z3-5.1(api; hypotheses restricted to the unsat core recorded in the lock)", "hint": f"{len(sel)} of {len(ob['hyps'])} hypotheses"}


def solve(ctx, ob, timeout_ms=20000):
    t0 = time.time()
    if ob["kind"] == "strfact":
        return solve_strfact(ob, t0)
    if ob.get("hint") and not ctx.finite and ob["kind"] not in ("frame-abs", "cover-sat") and not ob.get("_part"):
        r = solve_with_hint(ctx, ob, timeout_ms, t0)
        if r is not None:
            return r
    if ob["kind"] not in ("frame-abs", "cover-sat") and not ob.get("_part"):
        parts = goal_parts(ob["goal"])
        if len(parts) > 1:
            res = None
            for k, p in enumerate(parts):
                r = solve(ctx, dict(ob, goal=p, _part=True), timeout_ms)
                if res is None or r["status"] != "discharged":
                    res = r
                if r["status"] != "discharged":
                    res["detail"] = f"conjunct {k + 1}/{len(parts)} of the goal: " + str(r.get("detail", ""))
                    break
            res["time"] = time.time() - t0
            return res
    s = z3.Solver()
    s.set(timeout=timeout_ms)
    if ob["kind"] == "frame-abs":
        # obligation of the may-alias/effect analysis: decided by the analysis itself (sound over-approximation):
        # a flagged site is undecided, never a violation by itself
        ok = z3.is_true(ob["goal"])
        return {"id": ob["id"], "kind": ob["kind"], "time": 0.0, "solver": "pyvc.frame (abstract interpretation)",
                "status": "discharged" if ok else "unknown", "detail": "" if ok else f"the effect analysis cannot exclude: {ob['goal']}"}
    if ob["kind"] == "cover-sat":
        # vacuity guard: the hypotheses must be satisfiable; decided over a finite universe of names
        # (name templates are total injections with disjoint ranges, which no finite universe admits: checked as is;
        #  `unsat` = the contract is vacuous; sat/unknown = not shown vacuous)
        s.add(ctx.axioms)
        s.add(ob["hyps"])
        r = hard_check(s, 5000)
        return {"id": ob["id"], "kind": ob["kind"], "time": time.time() - t0, "solver": "z3-5.1(api)",
                "status": "vacuous" if r == z3.unsat else "discharged", "detail": f"hypotheses: {r}"}
    if ctx.finite:
        memo = {}
        for f in list(ctx.axioms) + list(ob["hyps"]) + [z3.Not(ob["goal"])]:
            s.add(expand_finite(f, ctx, memo))
    else:
        s.add(ctx.axioms)
        s.add(ob["hyps"])
        s.add(z3.Not(ob["goal"]))
    r = hard_check(s, timeout_ms)
    if r == z3.unknown and not ctx.finite and not os.environ.get("PYVC_NO_RETRY"):
        # z3's search is sensitive to its random seed (the same VC was seen to take 2.6 s or > 10 s): retry with
        # other seeds and a larger budget before giving up, so that verdicts do not flip under load
        for seed, tmo in ((7, 3 * timeout_ms), (23, 6 * timeout_ms)):
            s2 = z3.Solver()
            s2.set(timeout=tmo)
            s2.set("random_seed", seed)
            s2.add(ctx.axioms)
            s2.add(ob["hyps"])
            s2.add(z3.Not(ob["goal"]))
            r = hard_check(s2, tmo)
            if r != z3.unknown:
                s = s2
                break
    res = {"id": ob["id"], "kind": ob["kind"], "time": 0.0, "solver": "z3-5.1(api)"}
    if r == z3.unsat:
        res["status"] = "discharged"
    elif r == z3.sat:
        res["status"] = "refuted"
        try:
            m = s.model()
            res["_model"] = m
            res["model"] = str(m)[:1500]
        except Exception:
            pass
    else:
        res["status"] = "unknown"
        res["detail"] = s.reason_unknown()
        # portfolio: the same query as SMT-LIB text to the other installed solvers
        smt = s.to_smt2()
        for name, cmd in () if os.environ.get("PYVC_NO_PORTFOLIO") else (("z3-4.8.12", ["/usr/bin/z3", "-T:20", "-smt2"]), ("cvc5-1.0.3", ["/usr/bin/cvc5", "--tlimit=20000", "--lang=smt2"])):
            try:
                with tempfile.NamedTemporaryFile("w", suffix=".smt2", delete=False) as f:
                    f.write(smt)
                    path = f.name
                p = subprocess.run(cmd + [path], stdout=subprocess.PIPE, stderr=subprocess.PIPE, text=True, timeout=30)
                out = p.stdout.strip().split("\n")[0] if p.stdout else ""
                os.unlink(path)
                if out == "unsat":
                    res["status"], res["solver"] = "discharged", name
                    break
                if out == "sat":
                    res["detail"] = f"{name} answered sat (not trusted as a refutation; only in-process models are)"
            except Exception:
                pass
    res["time"] = time.time() - t0
    return res
