"""Layer 2: Circuit.add_subcircuit body == its contract (contracts/layer2.py), so that the contract need not be assumed."""
import z3

from contracts import layer1, layer2
from pyvc import engine, models, spec, verify
from pyvc.engine import NONE, BBDict, DictV, NameV, State, StrLit
from pyvc.exec import Coll, Exec

F = layer1.F
QUAL = "Circuit.add_subcircuit"
layer1.SUMMARIES.update(layer2.SUMMARIES)


def task(nconn, strip, literal_name=False):
    def run(ctx):
        fn, seg, sha = engine.find_function(F, QUAL)
        label = f"{QUAL}[connections={nconn},strip_io={strip},name={'literal' if literal_name else 'symbolic'}]"
        T = ctx.tval
        H = {}

        def pre(n):
            return H["pre"](n)

        def loop_mapping(ex, s, st, it, ordinal):
            me = st.env["self"]
            g = st.g(me)
            def inv(ex, stx, done):
                mp = stx.env["mapping"]
                x = ctx.fresh_name("mx")
                return [("domain", z3.ForAll([x], mp.dom(x) == done.mem(x))),
                        ("values", z3.ForAll([x], z3.Implies(done.mem(x), mp.val(x).term == pre(x)))),
                        ("no-overlap-so-far", z3.ForAll([x], z3.Implies(done.mem(x), z3.Not(g.node(pre(x))))))]
            return ex.invariant_for(s, st, it, ordinal, inv, mod_locals=["mapping"], label="mapping")

        def loop_strip(kind):
            def spec_(ex, s, st, it, ordinal):
                me = st.env["self"]
                g_in = st.g(me)
                def inv(ex, stx, done):
                    g = stx.g(me)
                    x, n = ctx.fresh_name("sx"), ctx.fresh_name("sn")
                    hit = lambda t: z3.Exists([n], z3.And(done.mem(n), t == pre(n)))
                    if kind == "type":
                        return [("types", z3.ForAll([x], z3.Select(g.ty, x) == z3.If(hit(x), T["buf"], z3.Select(g_in.ty, x)))),
                                ("hasty", z3.ForAll([x], z3.Select(g.hasty, x) == z3.Or(z3.Select(g_in.hasty, x), hit(x)))),
                                ("rest", g.same(g_in, ctx, fields=["N", "hasout", "out", "FI"]))]
                    return [("outputs", z3.ForAll([x], z3.Select(g.out, x) == z3.If(hit(x), False, z3.Select(g_in.out, x)))),
                            ("hasout", z3.ForAll([x], z3.Select(g.hasout, x) == z3.Or(z3.Select(g_in.hasout, x), hit(x)))),
                            ("rest", g.same(g_in, ctx, fields=["N", "hasty", "ty", "FI"]))]
                return ex.invariant_for(s, st, it, ordinal, inv, mod_objs=[me], label=f"strip-{kind}")
            return spec_

        def loop_bbs(ex, s, st, it, ordinal):
            me, sc = st.env["self"], st.env["sc"]
            b_in, bs = st.bb(me), st.bb(sc)
            def inv(ex, stx, done):
                b = stx.bb(me)
                x, n = ctx.fresh_name("bx"), ctx.fresh_name("bn")
                hit = lambda t: z3.Exists([n], z3.And(done.mem(n), t == pre(n)))
                return [("domain", z3.ForAll([x], z3.Select(b.dom, x) == z3.Or(z3.Select(b_in.dom, x), hit(x)))),
                        ("old-values", z3.ForAll([x], z3.Implies(z3.And(z3.Select(b_in.dom, x), z3.Not(hit(x))), z3.Select(b.val, x) == z3.Select(b_in.val, x)))),
                        ("new-values", z3.ForAll([n], z3.Implies(done.mem(n), z3.Select(b.val, pre(n)) == z3.Select(bs.val, n))))]
            me.havoc_registry = True
            try:
                return ex.invariant_for(s, st, it, ordinal, inv, mod_objs=[_reg(me)], label="registry")
            finally:
                me.havoc_registry = False

        def _reg(ref):
            class R:  # a reference whose havoc touches the registry only
                oid = ref.oid
                kind = ref.kind
                havoc_registry = True
                registry_only = True
            return R()

        def loop_unregister(ex, s, st, it, ordinal):
            me = st.env["self"]
            b_in = st.bb(me)
            def inv(ex, stx, done):
                b = stx.bb(me)
                x, n = ctx.fresh_name("bx"), ctx.fresh_name("bn")
                hit = lambda t: z3.Exists([n], z3.And(done.mem(n), t == pre(n)))
                return [("domain", z3.ForAll([x], z3.Select(b.dom, x) == z3.And(z3.Select(b_in.dom, x), z3.Not(hit(x))))),
                        ("values", z3.ForAll([x], z3.Implies(z3.Select(b.dom, x), z3.Select(b.val, x) == z3.Select(b_in.val, x))))]
            return ex.invariant_for(s, st, it, ordinal, inv, mod_objs=[_reg(me)], label="unregister")

        ex = Exec(ctx, summaries={k: v for k, v in layer1.SUMMARIES.items() if k != QUAL}, module_consts=engine.module_constants(F), fname=label)
        ex.select_candidates = True
        import ast as _ast
        loops = sorted([n for n in _ast.walk(fn) if isinstance(n, (_ast.For, _ast.While))], key=lambda n: (n.lineno, n.col_offset))
        ex.loop_specs = {}
        for k, n in enumerate(loops):
            src = _ast.unparse(n)
            first = src.split("\n")[0]
            if "for n in sc:" in first:
                ex.loop_specs[k + 1] = loop_mapping
            elif "sc.inputs()" in first:
                ex.loop_specs[k + 1] = loop_strip("type")
            elif "sc.outputs()" in first:
                ex.loop_specs[k + 1] = loop_strip("output")
            elif "sc.blackboxes.items()" in first:
                ex.loop_specs[k + 1] = loop_bbs
            elif "for bb_name in sc.blackboxes" in first and "pop" in src:
                ex.loop_specs[k + 1] = loop_unregister
        def cut_after_update(ex_, st):
            """the merged graph right after `self.graph.update(g)`, in the form the contract uses (prefix / inverse prefix)"""
            g, g0_, gs_ = st.g(H["me"]), H["g0"], H["gs"]
            unpre = H["unpre"]
            t, u, v = ctx.fresh_name("ct"), ctx.fresh_name("cu"), ctx.fresh_name("cv")
            img = lambda a: z3.And(a == pre(unpre(a)), gs_.node(unpre(a)))
            return {"forget": ("rl_", "relabel_source"), "facts": [
                ("merged:nodes", z3.ForAll([t], g.node(t) == z3.Or(g0_.node(t), img(t)))),
                ("merged:edges", z3.ForAll([u, v], g.edge(u, v) == z3.Or(g0_.edge(u, v), z3.And(img(u), img(v), gs_.edge(unpre(u), unpre(v)))))),
                ("merged:hasty", z3.ForAll([t], z3.Select(g.hasty, t) == z3.If(img(t), z3.Select(gs_.hasty, unpre(t)), z3.Select(g0_.hasty, t)))),
                ("merged:hasout", z3.ForAll([t], z3.Select(g.hasout, t) == z3.If(img(t), z3.Select(gs_.hasout, unpre(t)), z3.Select(g0_.hasout, t)))),
                ("merged:types", z3.ForAll([t], z3.Implies(z3.Select(g.hasty, t), z3.Select(g.ty, t) == z3.If(img(t), z3.Select(gs_.ty, unpre(t)), z3.Select(g0_.ty, t))))),
                ("merged:outputs", z3.ForAll([t], z3.Implies(z3.Select(g.hasout, t), z3.Select(g.out, t) == z3.If(img(t), z3.Select(gs_.out, unpre(t)), z3.Select(g0_.out, t))))),
            ]}
        ex.cuts = {}
        for n_ in _ast.walk(fn):
            if isinstance(n_, _ast.Expr) and isinstance(n_.value, _ast.Call) and getattr(n_.value.func, "attr", "") == "update":
                ex.cuts[n_.end_lineno] = cut_after_update
        st0 = State({}, {}, [])
        me = verify.mk_circuit(ex, st0, "self")
        sc = verify.mk_circuit(ex, st0, "sc")
        gs = st0.g(sc)
        x = ctx.fresh_name("tx")
        st0.pc.append(z3.ForAll([x], z3.Implies(gs.node(x), z3.Select(gs.hasty, x))))   # sc.inputs() needs typed nodes
        st0.pc.append(spec.typed(ctx, st0.g(me)))
        name = StrLit("c0") if literal_name else NameV(ctx.fresh_name("name"))
        H["pre"], H["unpre"] = layer2.prefix_fn(ex, name)
        H["me"], H["g0"], H["gs"] = me, st0.g(me), gs
        conns = NONE
        if nconn:
            items = [(ctx.fresh_name(f"key{k}"), NameV(ctx.fresh_name(f"net{k}"))) for k in range(nconn)]
            conns = DictV(lambda y, ks=[k for k, _ in items]: z3.Or([y == k for k in ks]), None, items=items)
            for a in range(nconn):
                for b in range(a):
                    st0.pc.append(items[a][0] != items[b][0])
        bind = {"self": me, "sc": sc, "name": name, "connections": conns, "strip_io": strip}
        body = verify.bind_and_run(ex, fn, st0, bind)
        specs = verify.run_summary(ex, layer2.s_add_subcircuit, st0, me, [sc, name], {"connections": conns, "strip_io": strip})
        verify.refine_vcs(ex, label, st0, body, specs)
        return {"function": f"{F}::{QUAL}", "sha256": sha, "lines": [fn.lineno, fn.end_lineno], "variants": [label]}
    return run


TASKS = {
    "layer2/add_subcircuit[no connections]": task(0, True),
    "layer2/add_subcircuit[no connections,literal name]": task(0, True, literal_name=True),
    "layer2/add_subcircuit[no connections,strip_io=False]": task(0, False),
    "layer2/add_subcircuit[1 connection]": task(1, True),
}
# not registered: with two connections the body generates ~1000 VCs of which many stay undecided within the budget;
# calls with >= 2 connections use the contract as an ASSUMED one (recorded by contracts/layer2.py)
EXPERIMENTAL = {"layer2/add_subcircuit[2 connections]": task(2, True)}


# ------------------------------------------------------------------------------------------------ add_blackbox
QUAL_BB = "Circuit.add_blackbox"


def task_add_blackbox():
    def run(ctx):
        import ast as _ast
        from pyvc.exec import BBVal
        fn, seg, sha = engine.find_function(F, QUAL_BB)
        label = f"{QUAL_BB}[no connections]"
        T = ctx.tval
        H = {}

        def loop_pins(kind):
            def spec_(ex, s, st, it, ordinal):
                me = st.env["self"]
                g_in = st.g(me)
                pin = H["pin"]
                def inv(ex, stx, done):
                    g = stx.g(me)
                    x, n = ctx.fresh_name("px"), ctx.fresh_name("pn")
                    hit = lambda t: z3.Exists([n], z3.And(done.mem(n), t == pin(n)))
                    return [("nodes", z3.ForAll([x], g.node(x) == z3.Or(g_in.node(x), hit(x)))),
                            ("hasty", z3.ForAll([x], z3.Select(g.hasty, x) == z3.Or(z3.Select(g_in.hasty, x), hit(x)))),
                            ("hasout", z3.ForAll([x], z3.Select(g.hasout, x) == z3.Or(z3.Select(g_in.hasout, x), hit(x)))),
                            ("types", z3.ForAll([x], z3.Select(g.ty, x) == z3.If(hit(x), T[kind], z3.Select(g_in.ty, x)))),
                            ("outputs", z3.ForAll([x], z3.Select(g.out, x) == z3.If(hit(x), False, z3.Select(g_in.out, x)))),
                            ("edges", g.same(g_in, ctx, fields=["FI"])),
                            # every pin visited so far was accepted by `add`
                            ("accepted", z3.ForAll([n], z3.Implies(done.mem(n), z3.And(z3.Not(g_in.node(pin(n))), z3.Not(ex.str_empty(pin(n))), z3.Not(ex.starts_digit(pin(n)))))))]
                return ex.invariant_for(s, st, it, ordinal, inv, mod_locals=["io"], mod_objs=[me], label=f"pins-{kind}")
            return spec_

        ex = Exec(ctx, summaries={k: v for k, v in layer1.SUMMARIES.items() if k != QUAL_BB}, module_consts=engine.module_constants(F), fname=label)
        ex.select_candidates = True
        loops = sorted([n for n in _ast.walk(fn) if isinstance(n, (_ast.For, _ast.While))], key=lambda n: (n.lineno, n.col_offset))
        ex.loop_specs = {}
        for k, n in enumerate(loops):
            first = _ast.unparse(n).split("\n")[0]
            if "blackbox.inputs()" in first:
                ex.loop_specs[k + 1] = loop_pins("bb_input")
            elif "blackbox.outputs()" in first:
                ex.loop_specs[k + 1] = loop_pins("bb_output")
        st0 = State({}, {}, [])
        me = verify.mk_circuit(ex, st0, "self")
        st0.pc.append(spec.typed(ctx, st0.g(me)))
        name = NameV(ctx.fresh_name("name"))
        b = BBVal(ctx.fresh("blackbox", ctx.BB))
        H["pin"] = layer2.pin_fn(ex, name)
        bind = {"self": me, "blackbox": b, "name": name, "connections": NONE}
        body = verify.bind_and_run(ex, fn, st0, bind)
        specs = verify.run_summary(ex, layer2.s_add_blackbox, st0, me, [b, name], {})
        verify.refine_vcs(ex, label, st0, body, specs)
        return {"function": f"{F}::{QUAL_BB}", "sha256": sha, "lines": [fn.lineno, fn.end_lineno], "variants": [label]}
    return run


TASKS["layer2/add_blackbox[no connections]"] = task_add_blackbox()
