"""Layer 2: Circuit.add_subcircuit body == its contract (contracts/layer2.py), so that the contract need not be assumed."""
import z3

from contracts import layer1, layer2
from pyvc import engine, models, spec, verify
from pyvc.engine import NONE, BBDict, DictV, NameV, State, StrLit
from pyvc.exec import Coll, Exec

F = layer1.F
QUAL = "Circuit.add_subcircuit"
layer1.SUMMARIES.update(layer2.SUMMARIES)


def symbolic_connections(ctx, values):
    """an arbitrary dict  io name -> net name (values='str')  or  io name -> list of net names (values='list')"""
    cdom = ctx.arr_nb("connections_keys")
    if values == "str":
        cval = z3.Function("connections_value", ctx.Name, ctx.Name)
        return DictV(lambda y: z3.Select(cdom, y), lambda y: NameV(cval(y)))
    cnt = z3.Function("connections_value_count", ctx.Name, ctx.Name, z3.IntSort())
    k, x = ctx.fresh_name("ck"), ctx.fresh_name("cx")
    ctx.axioms.append(z3.ForAll([k, x], cnt(k, x) >= 0))
    return DictV(lambda y: z3.Select(cdom, y), lambda y: Coll(lambda t, y=y: cnt(y, t) > 0, cnt=lambda t, y=y: cnt(y, t), is_list=True), vkind="list")


def task(nconn, strip, literal_name=False, direct_wired=False, values="str"):
    """direct_wired=False: body == contract for `nconn` explicit connections.
    direct_wired=True: C07 on the body with an arbitrary dict of connections (io name -> net name): `wired` on every
    exit and a rejected call leaves edges and registry as they were (callees used through their contracts)."""
    def run(ctx):
        fn, seg, sha = engine.find_function(F, QUAL)
        label = f"{QUAL}[connections={('dict of ' + values) if direct_wired else nconn},strip_io={strip},name={'literal' if literal_name else 'symbolic'}]"
        T = ctx.tval
        H = {}

        def pre(n):
            return H["pre"](n)

        def loop_mapping(ex, s, st, it, ordinal):
            me = st.env["self"]
            g = st.g(me)
            def inv(ex, stx, done):
                mp = stx.env["mapping"]
                x = ctx.fresh_name("mx")
                return [("domain", z3.ForAll([x], mp.dom(x) == done.mem(x))),
                        ("values", z3.ForAll([x], z3.Implies(done.mem(x), mp.val(x).term == pre(x)))),
                        ("no-overlap-so-far", z3.ForAll([x], z3.Implies(done.mem(x), z3.Not(g.node(pre(x))))))]
            return ex.invariant_for(s, st, it, ordinal, inv, mod_locals=["mapping"], label="mapping")

        def loop_strip(kind):
            def spec_(ex, s, st, it, ordinal):
                me = st.env["self"]
                g_in = st.g(me)
                def inv(ex, stx, done):
                    g = stx.g(me)
                    x, n = ctx.fresh_name("sx"), ctx.fresh_name("sn")
                    hit = lambda t: z3.Exists([n], z3.And(done.mem(n), t == pre(n)))
                    if kind == "type":
                        return [("types", z3.ForAll([x], z3.Select(g.ty, x) == z3.If(hit(x), T["buf"], z3.Select(g_in.ty, x)))),
                                ("hasty", z3.ForAll([x], z3.Select(g.hasty, x) == z3.Or(z3.Select(g_in.hasty, x), hit(x)))),
                                ("rest", g.same(g_in, ctx, fields=["N", "hasout", "out", "FI"]))]
                    return [("outputs", z3.ForAll([x], z3.Select(g.out, x) == z3.If(hit(x), False, z3.Select(g_in.out, x)))),
                            ("hasout", z3.ForAll([x], z3.Select(g.hasout, x) == z3.Or(z3.Select(g_in.hasout, x), hit(x)))),
                            ("rest", g.same(g_in, ctx, fields=["N", "hasty", "ty", "FI"]))]
                return ex.invariant_for(s, st, it, ordinal, inv, mod_objs=[me], label=f"strip-{kind}")
            return spec_

        def loop_bbs(ex, s, st, it, ordinal):
            me, sc = st.env["self"], st.env["sc"]
            b_in, bs = st.bb(me), st.bb(sc)
            def inv(ex, stx, done):
                b = stx.bb(me)
                x, n = ctx.fresh_name("bx"), ctx.fresh_name("bn")
                hit = lambda t: z3.Exists([n], z3.And(done.mem(n), t == pre(n)))
                return [("domain", z3.ForAll([x], z3.Select(b.dom, x) == z3.Or(z3.Select(b_in.dom, x), hit(x)))),
                        ("old-values", z3.ForAll([x], z3.Implies(z3.And(z3.Select(b_in.dom, x), z3.Not(hit(x))), z3.Select(b.val, x) == z3.Select(b_in.val, x)))),
                        ("new-values", z3.ForAll([n], z3.Implies(done.mem(n), z3.Select(b.val, pre(n)) == z3.Select(bs.val, n))))]
            me.havoc_registry = True
            try:
                return ex.invariant_for(s, st, it, ordinal, inv, mod_objs=[_reg(me)], label="registry")
            finally:
                me.havoc_registry = False

        def _reg(ref):
            class R:  # a reference whose havoc touches the registry only
                oid = ref.oid
                kind = ref.kind
                havoc_registry = True
                registry_only = True
            return R()

        def loop_unregister(ex, s, st, it, ordinal):
            me = st.env["self"]
            b_in = st.bb(me)
            def inv(ex, stx, done):
                b = stx.bb(me)
                x, n = ctx.fresh_name("bx"), ctx.fresh_name("bn")
                hit = lambda t: z3.Exists([n], z3.And(done.mem(n), t == pre(n)))
                return [("domain", z3.ForAll([x], z3.Select(b.dom, x) == z3.And(z3.Select(b_in.dom, x), z3.Not(hit(x))))),
                        ("values", z3.ForAll([x], z3.Implies(z3.Select(b.dom, x), z3.Select(b.val, x) == z3.Select(b_in.val, x))))]
            return ex.invariant_for(s, st, it, ordinal, inv, mod_objs=[_reg(me)], label="unregister")

        def loop_conns(ex, s, st, it, ordinal):
            me = st.env["self"]
            g_in = st.g(me)
            isimg = lambda t: z3.And(t == pre(H["unpre"](t)), H["gs"].node(H["unpre"](t)))
            def inv(ex, stx, done):
                g = stx.g(me)
                u, v = ctx.fresh_name("cu"), ctx.fresh_name("cv")
                return [("attributes-unchanged", g.same(g_in, ctx, fields=["N", "hasty", "ty", "hasout", "out"])),
                        ("graph-invariant", g.wf(ctx)),
                        ("wiring", spec.wired_edges(ctx, g)),
                        ("edges-among-old-nodes-unchanged", z3.ForAll([u, v], z3.Implies(z3.And(z3.Not(isimg(u)), z3.Not(isimg(v))), g.edge(u, v) == g_in.edge(u, v))))]
            return ex.invariant_for(s, st, it, ordinal, inv, mod_objs=[me], label="connections")

        ex = Exec(ctx, summaries={k: v for k, v in layer1.SUMMARIES.items() if k != QUAL}, module_consts=engine.module_constants(F), fname=label)
        ex.select_candidates = True
        import ast as _ast
        loops = sorted([n for n in _ast.walk(fn) if isinstance(n, (_ast.For, _ast.While))], key=lambda n: (n.lineno, n.col_offset))
        ex.loop_specs = {}
        for k, n in enumerate(loops):
            src = _ast.unparse(n)
            first = src.split("\n")[0]
            if "for n in sc:" in first:
                ex.loop_specs[k + 1] = loop_mapping
            elif "sc.inputs()" in first:
                ex.loop_specs[k + 1] = loop_strip("type")
            elif "sc.outputs()" in first:
                ex.loop_specs[k + 1] = loop_strip("output")
            elif "sc.blackboxes.items()" in first:
                ex.loop_specs[k + 1] = loop_bbs
            elif "for bb_name in sc.blackboxes" in first and "pop" in src:
                ex.loop_specs[k + 1] = loop_unregister
            elif direct_wired and "connections.items()" in first and "connect(" in src:
                ex.loop_specs[k + 1] = loop_conns
        def cut_after_update(ex_, st):
            """the merged graph right after `self.graph.update(g)`, in the form the contract uses (prefix / inverse prefix)"""
            g, g0_, gs_ = st.g(H["me"]), H["g0"], H["gs"]
            unpre = H["unpre"]
            t, u, v = ctx.fresh_name("ct"), ctx.fresh_name("cu"), ctx.fresh_name("cv")
            img = lambda a: z3.And(a == pre(unpre(a)), gs_.node(unpre(a)))
            return {"forget": ("rl_", "relabel_source"), "facts": [
                ("merged:nodes", z3.ForAll([t], g.node(t) == z3.Or(g0_.node(t), img(t)))),
                ("merged:edges", z3.ForAll([u, v], g.edge(u, v) == z3.Or(g0_.edge(u, v), z3.And(img(u), img(v), gs_.edge(unpre(u), unpre(v)))))),
                ("merged:hasty", z3.ForAll([t], z3.Select(g.hasty, t) == z3.If(img(t), z3.Select(gs_.hasty, unpre(t)), z3.Select(g0_.hasty, t)))),
                ("merged:hasout", z3.ForAll([t], z3.Select(g.hasout, t) == z3.If(img(t), z3.Select(gs_.hasout, unpre(t)), z3.Select(g0_.hasout, t)))),
                ("merged:types", z3.ForAll([t], z3.Implies(z3.Select(g.hasty, t), z3.Select(g.ty, t) == z3.If(img(t), z3.Select(gs_.ty, unpre(t)), z3.Select(g0_.ty, t))))),
                ("merged:outputs", z3.ForAll([t], z3.Implies(z3.Select(g.hasout, t), z3.Select(g.out, t) == z3.If(img(t), z3.Select(gs_.out, unpre(t)), z3.Select(g0_.out, t))))),
            ]}
        ex.cuts = {}
        for n_ in _ast.walk(fn):
            if isinstance(n_, _ast.Expr) and isinstance(n_.value, _ast.Call) and getattr(n_.value.func, "attr", "") == "update":
                ex.cuts[n_.end_lineno] = cut_after_update
        st0 = State({}, {}, [])
        me = verify.mk_circuit(ex, st0, "self", wf=not direct_wired)
        sc = verify.mk_circuit(ex, st0, "sc", wf=not direct_wired)
        gs = st0.g(sc)
        x = ctx.fresh_name("tx")
        pin2 = ctx.template(("", ".", ""))
        if direct_wired:
            R, Rc = ctx.arr_nb("removed_by_caller"), ctx.arr_nb("removed_in_child")
            st0.pc.append(spec.wired(ctx, st0.g(me), st0.bb(me), pin2, lambda n: z3.Select(R, n)))
            st0.pc.append(spec.wired(ctx, gs, st0.bb(sc), pin2, lambda n: z3.Select(Rc, n)))
            H["removed_after"] = lambda n: z3.Or(z3.Select(R, n), z3.And(n == pre(H["unpre"](n)), z3.Select(Rc, H["unpre"](n))))
            H["removed_before"] = lambda n: z3.Select(R, n)
        else:
            st0.pc.append(z3.ForAll([x], z3.Implies(gs.node(x), z3.Select(gs.hasty, x))))   # sc.inputs() needs typed nodes
            st0.pc.append(spec.typed(ctx, st0.g(me)))
        name = StrLit("c0") if literal_name else NameV(ctx.fresh_name("name"))
        H["pre"], H["unpre"] = layer2.prefix_fn(ex, name)
        H["me"], H["g0"], H["gs"] = me, st0.g(me), gs
        conns = NONE
        if nconn:
            items = [(ctx.fresh_name(f"key{k}"), NameV(ctx.fresh_name(f"net{k}"))) for k in range(nconn)]
            conns = DictV(lambda y, ks=[k for k, _ in items]: z3.Or([y == k for k in ks]), None, items=items)
            for a in range(nconn):
                for b in range(a):
                    st0.pc.append(items[a][0] != items[b][0])
        if direct_wired:
            conns = symbolic_connections(ctx, values)
        bind = {"self": me, "sc": sc, "name": name, "connections": conns, "strip_io": strip}
        body = verify.bind_and_run(ex, fn, st0, bind)
        if direct_wired:
            g0, bb0 = st0.g(me), st0.bb(me)
            n_ret = n_exc = 0
            for o in body:
                i = o.st.pathid()
                g1, bb1 = o.st.g(me), o.st.bb(me)
                what = "raise(" + str(o.exc) + ")" if o.kind == "raise" else "return"
                for lab, f in [("graph-invariant", g1.wf(ctx)), ("typed", spec.typed(ctx, g1)), ("wiring", spec.wired_edges(ctx, g1)),
                               ("registry", spec.registry_ok(ctx, g1, bb1, pin2, H["removed_before"] if o.kind == "raise" else H["removed_after"])),
                         ("pins-of-distinct-instances", spec.pins_distinct(ctx, bb1, pin2, H["removed_before"] if o.kind == "raise" else H["removed_after"]))]:
                    ctx.oblige(f"{label}/wired#{i}:{what}:{lab}", o.st.pc, f, "post")
                if o.kind == "raise":
                    n_exc += 1
                    ctx.oblige(f"{label}/rejected-call-adds-no-edge#{i}:{what}", o.st.pc, spec.same_edges(ctx, g1, g0), "post")
                    ctx.oblige(f"{label}/rejected-call-keeps-registry#{i}:{what}", o.st.pc, bb1.same(bb0, ctx), "post")
                    ctx.oblige(f"{label}/rejected-call-class#{i}:{what}", o.st.pc, z3.BoolVal(o.exc in ("ValueError", "KeyError")), "post")
                else:
                    n_ret += 1
            ctx.oblige(f"{label}/cover:returns-and-rejects", [], z3.BoolVal(n_ret > 0 and n_exc > 0), "cover")
            return {"function": f"{F}::{QUAL}", "sha256": sha, "lines": engine.abs_lines(fn), "variants": [label], "kind": "postcondition on the body"}
        specs = verify.run_summary(ex, layer2.s_add_subcircuit, st0, me, [sc, name], {"connections": conns, "strip_io": strip})
        verify.refine_vcs(ex, label, st0, body, specs)
        return {"function": f"{F}::{QUAL}", "sha256": sha, "lines": engine.abs_lines(fn), "variants": [label]}
    return run


TASKS = {
    "layer2/add_subcircuit[no connections]": task(0, True),
    "layer2/add_subcircuit[no connections,literal name]": task(0, True, literal_name=True),
    "layer2/add_subcircuit[no connections,strip_io=False]": task(0, False),
    "layer2/add_subcircuit[1 connection]": task(1, True),
}
# not registered: with two connections the body generates ~1000 VCs of which many stay undecided within the budget;
# calls with >= 2 connections use the contract as an ASSUMED one (recorded by contracts/layer2.py)
EXPERIMENTAL = {"layer2/add_subcircuit[2 connections]": task(2, True)}


# ------------------------------------------------------------------------------------------------ add_blackbox
QUAL_BB = "Circuit.add_blackbox"


def task_add_blackbox():
    def run(ctx):
        import ast as _ast
        from pyvc.exec import BBVal
        fn, seg, sha = engine.find_function(F, QUAL_BB)
        label = f"{QUAL_BB}[no connections]"
        T = ctx.tval
        H = {}

        def loop_pins(kind):
            def spec_(ex, s, st, it, ordinal):
                me = st.env["self"]
                g_in = st.g(me)
                pin = H["pin"]
                def inv(ex, stx, done):
                    g = stx.g(me)
                    x, n = ctx.fresh_name("px"), ctx.fresh_name("pn")
                    hit = lambda t: z3.Exists([n], z3.And(done.mem(n), t == pin(n)))
                    return [("nodes", z3.ForAll([x], g.node(x) == z3.Or(g_in.node(x), hit(x)))),
                            ("hasty", z3.ForAll([x], z3.Select(g.hasty, x) == z3.Or(z3.Select(g_in.hasty, x), hit(x)))),
                            ("hasout", z3.ForAll([x], z3.Select(g.hasout, x) == z3.Or(z3.Select(g_in.hasout, x), hit(x)))),
                            ("types", z3.ForAll([x], z3.Select(g.ty, x) == z3.If(hit(x), T[kind], z3.Select(g_in.ty, x)))),
                            ("outputs", z3.ForAll([x], z3.Select(g.out, x) == z3.If(hit(x), False, z3.Select(g_in.out, x)))),
                            ("edges", g.same(g_in, ctx, fields=["FI"])),
                            # every pin visited so far was accepted by `add`
                            ("accepted", z3.ForAll([n], z3.Implies(done.mem(n), z3.And(z3.Not(g_in.node(pin(n))), z3.Not(ex.str_empty(pin(n))), z3.Not(ex.starts_digit(pin(n)))))))]
                return ex.invariant_for(s, st, it, ordinal, inv, mod_locals=["io"], mod_objs=[me], label=f"pins-{kind}")
            return spec_

        ex = Exec(ctx, summaries={k: v for k, v in layer1.SUMMARIES.items() if k != QUAL_BB}, module_consts=engine.module_constants(F), fname=label)
        ex.select_candidates = True
        loops = sorted([n for n in _ast.walk(fn) if isinstance(n, (_ast.For, _ast.While))], key=lambda n: (n.lineno, n.col_offset))
        ex.loop_specs = {}
        for k, n in enumerate(loops):
            first = _ast.unparse(n).split("\n")[0]
            if "blackbox.inputs()" in first:
                ex.loop_specs[k + 1] = loop_pins("bb_input")
            elif "blackbox.outputs()" in first:
                ex.loop_specs[k + 1] = loop_pins("bb_output")
        st0 = State({}, {}, [])
        me = verify.mk_circuit(ex, st0, "self")
        st0.pc.append(spec.typed(ctx, st0.g(me)))
        name = NameV(ctx.fresh_name("name"))
        b = BBVal(ctx.fresh("blackbox", ctx.BB))
        H["pin"] = layer2.pin_fn(ex, name)
        bind = {"self": me, "blackbox": b, "name": name, "connections": NONE}
        body = verify.bind_and_run(ex, fn, st0, bind)
        specs = verify.run_summary(ex, layer2.s_add_blackbox, st0, me, [b, name], {})
        verify.refine_vcs(ex, label, st0, body, specs)
        return {"function": f"{F}::{QUAL_BB}", "sha256": sha, "lines": engine.abs_lines(fn), "variants": [label]}
    return run


TASKS["layer2/add_blackbox[no connections]"] = task_add_blackbox()
TASKS["C07/add_subcircuit[connections] on the body"] = task(0, True, direct_wired=True)
TASKS["C07/add_subcircuit[list connections] on the body"] = task(0, True, direct_wired=True, values="list")
TASKS["C07/add_subcircuit[connections,strip_io=False] on the body"] = task(0, False, direct_wired=True)


def task_add_blackbox_connections(values="str"):
    """C07 on the body of add_blackbox with an arbitrary dict of connections (pin name -> net name): `wired` holds on
    every exit, a rejected call leaves the edge set and the registry as they were.  Proved directly on the body (loop
    invariants carry the wiring clauses); callees (add, connect, remove) are used through their contracts."""
    def run(ctx):
        import ast as _ast
        from pyvc.exec import BBVal
        fn, seg, sha = engine.find_function(F, QUAL_BB)
        label = f"{QUAL_BB}[connections: dict of {values}]"
        T = ctx.tval
        H = {}

        def loop_pins(kind):
            def spec_(ex, s, st, it, ordinal):
                me = st.env["self"]
                g_in = st.g(me)
                pin = H["pin"]
                def inv(ex, stx, done):
                    g = stx.g(me)
                    x, n = ctx.fresh_name("px"), ctx.fresh_name("pn")
                    hit = lambda t: z3.Exists([n], z3.And(done.mem(n), t == pin(n)))
                    return [("nodes", z3.ForAll([x], g.node(x) == z3.Or(g_in.node(x), hit(x)))),
                            ("hasty", z3.ForAll([x], z3.Select(g.hasty, x) == z3.Or(z3.Select(g_in.hasty, x), hit(x)))),
                            ("hasout", z3.ForAll([x], z3.Select(g.hasout, x) == z3.Or(z3.Select(g_in.hasout, x), hit(x)))),
                            ("types", z3.ForAll([x], z3.Select(g.ty, x) == z3.If(hit(x), T[kind], z3.Select(g_in.ty, x)))),
                            ("outputs", z3.ForAll([x], z3.Select(g.out, x) == z3.If(hit(x), False, z3.Select(g_in.out, x)))),
                            ("edges", g.same(g_in, ctx, fields=["FI"])),
                            ("accepted", z3.ForAll([n], z3.Implies(done.mem(n), z3.And(z3.Not(g_in.node(pin(n))), z3.Not(ex.str_empty(pin(n))), z3.Not(ex.starts_digit(pin(n)))))))]
                return ex.invariant_for(s, st, it, ordinal, inv, mod_locals=["io"], mod_objs=[me], label=f"pins-{kind}")
            return spec_

        def loop_conns(ex, s, st, it, ordinal):
            me = st.env["self"]
            g_in = st.g(me)
            ispin = H["ispin"]
            def inv(ex, stx, done):
                g = stx.g(me)
                u, v = ctx.fresh_name("cu"), ctx.fresh_name("cv")
                return [("attributes-unchanged", g.same(g_in, ctx, fields=["N", "hasty", "ty", "hasout", "out"])),
                        ("graph-invariant", g.wf(ctx)),
                        ("wiring", spec.wired_edges(ctx, g)),
                        ("edges-among-old-nodes-unchanged", z3.ForAll([u, v], z3.Implies(z3.And(z3.Not(ispin(u)), z3.Not(ispin(v))), g.edge(u, v) == g_in.edge(u, v))))]
            return ex.invariant_for(s, st, it, ordinal, inv, mod_objs=[me], label="connections")

        ex = Exec(ctx, summaries={k: v for k, v in layer1.SUMMARIES.items() if k != QUAL_BB}, module_consts=engine.module_constants(F), fname=label)
        loops = sorted([n for n in _ast.walk(fn) if isinstance(n, (_ast.For, _ast.While))], key=lambda n: (n.lineno, n.col_offset))
        ex.loop_specs = {}
        for k, n in enumerate(loops):
            first = _ast.unparse(n).split("\n")[0]
            if "blackbox.inputs()" in first:
                ex.loop_specs[k + 1] = loop_pins("bb_input")
            elif "blackbox.outputs()" in first:
                ex.loop_specs[k + 1] = loop_pins("bb_output")
            elif "connections.items()" in first:
                ex.loop_specs[k + 1] = loop_conns
        st0 = State({}, {}, [])
        me = verify.mk_circuit(ex, st0, "self", wf=False)
        pin2 = ctx.template(("", ".", ""))
        g0, bb0 = st0.g(me), st0.bb(me)
        R = ctx.arr_nb("removed_by_caller")
        st0.pc.append(spec.wired(ctx, g0, bb0, pin2, lambda n: z3.Select(R, n)))
        name = NameV(ctx.fresh_name("name"))
        b = BBVal(ctx.fresh("blackbox", ctx.BB))
        H["pin"] = layer2.pin_fn(ex, name)
        nm = ex.name_term(name)
        unpin = ctx.template_inverse[("", ".", "")]
        H["ispin"] = lambda t: z3.And(t == pin2(nm, unpin(nm, t)), z3.Or(ctx.bb_in(b.term, unpin(nm, t)), ctx.bb_out(b.term, unpin(nm, t))))
        conns = symbolic_connections(ctx, values)
        bind = {"self": me, "blackbox": b, "name": name, "connections": conns}
        outs = verify.bind_and_run(ex, fn, st0, bind)
        n_ret = n_exc = 0
        for o in outs:
            i = o.st.pathid()
            g1, bb1 = o.st.g(me), o.st.bb(me)
            what = "raise(" + str(o.exc) + ")" if o.kind == "raise" else "return"
            for lab, f in [("graph-invariant", g1.wf(ctx)), ("typed", spec.typed(ctx, g1)), ("wiring", spec.wired_edges(ctx, g1)),
                           ("registry", spec.registry_ok(ctx, g1, bb1, pin2, lambda n: z3.Select(R, n))),
                         ("pins-of-distinct-instances", spec.pins_distinct(ctx, bb1, pin2, lambda n: z3.Select(R, n)))]:
                ctx.oblige(f"{label}/wired#{i}:{what}:{lab}", o.st.pc, f, "post")
            if o.kind == "raise":
                n_exc += 1
                ctx.oblige(f"{label}/rejected-call-adds-no-edge#{i}:{what}", o.st.pc, spec.same_edges(ctx, g1, g0), "post")
                ctx.oblige(f"{label}/rejected-call-keeps-registry#{i}:{what}", o.st.pc, bb1.same(bb0, ctx), "post")
                ctx.oblige(f"{label}/rejected-call-class#{i}:{what}", o.st.pc, z3.BoolVal(o.exc in ("ValueError", "KeyError")), "post")
            else:
                n_ret += 1
        ctx.oblige(f"{label}/cover:returns-and-rejects", [], z3.BoolVal(n_ret > 0 and n_exc > 0), "cover")
        return {"function": f"{F}::{QUAL_BB}", "sha256": sha, "lines": engine.abs_lines(fn), "variants": [label], "kind": "postcondition on the body"}
    return run


TASKS["C07/add_blackbox[connections] on the body"] = task_add_blackbox_connections()
TASKS["C07/add_blackbox[list connections] on the body"] = task_add_blackbox_connections("list")


# ------------------------------------------------------------------------------------------------ fill_blackbox
QUAL_FILL = "Circuit.fill_blackbox"


def task_fill_blackbox():
    """C07 on the body of fill_blackbox(name, c): `wired` on every exit; a rejected call leaves the circuit as it was.
    Pins of the filled instance may be absent (removed by the caller); a present one is a pin by the code's own check.
    The auxiliary invariant of the induction (spec.pins_distinct: two recorded instances share a pin node only if the
    caller removed it at some point) is part of the pre- and postcondition, like in every other C07 lemma."""
    def run(ctx):
        import ast as _ast
        from pyvc.exec import BBVal
        fn, seg, sha = engine.find_function(F, QUAL_FILL)
        label = f"{QUAL_FILL}[pins present or removed]"
        T = ctx.tval
        H = {}
        pre = lambda n: H["pre"](n)

        def loop_mapping(ex, s, st, it, ordinal):
            me = st.env["self"]
            g = st.g(me)
            def inv(ex, stx, done):
                mp = stx.env["mapping"]
                x = ctx.fresh_name("mx")
                return [("domain", z3.ForAll([x], mp.dom(x) == done.mem(x))),
                        ("values", z3.ForAll([x], z3.Implies(done.mem(x), mp.val(x).term == pre(x)))),
                        ("no-overlap-so-far", z3.ForAll([x], z3.Implies(done.mem(x), z3.Not(g.node(pre(x))))))]
            return ex.invariant_for(s, st, it, ordinal, inv, mod_locals=["mapping"], label="mapping")

        def loop_strip(kind):
            def spec_(ex, s, st, it, ordinal):
                me = st.env["self"]
                g_in = st.g(me)
                def inv(ex, stx, done):
                    g = stx.g(me)
                    x, n = ctx.fresh_name("sx"), ctx.fresh_name("sn")
                    hit = lambda t: z3.Exists([n], z3.And(done.mem(n), t == pre(n)))
                    if kind == "type":
                        return [("types", z3.ForAll([x], z3.Select(g.ty, x) == z3.If(hit(x), T["buf"], z3.Select(g_in.ty, x)))),
                                ("hasty", z3.ForAll([x], z3.Select(g.hasty, x) == z3.Or(z3.Select(g_in.hasty, x), hit(x)))),
                                ("rest", g.same(g_in, ctx, fields=["N", "hasout", "out", "FI"]))]
                    return [("hasout", z3.ForAll([x], z3.Select(g.hasout, x) == z3.Or(z3.Select(g_in.hasout, x), hit(x)))),
                            ("rest", g.same(g_in, ctx, fields=["N", "hasty", "ty", "FI"]))]
                return ex.invariant_for(s, st, it, ordinal, inv, mod_objs=[me], label=f"strip-{kind}")
            return spec_

        def _reg(ref):
            class R:
                oid = ref.oid
                kind = ref.kind
                havoc_registry = True
                registry_only = True
            return R()

        def loop_bbs(ex, s, st, it, ordinal):
            me, c_ = st.env["self"], st.env["c"]
            b_in, bs = st.bb(me), st.bb(c_)
            def inv(ex, stx, done):
                b = stx.bb(me)
                x, n = ctx.fresh_name("bx"), ctx.fresh_name("bn")
                hit = lambda t: z3.Exists([n], z3.And(done.mem(n), t == pre(n)))
                return [("domain", z3.ForAll([x], z3.Select(b.dom, x) == z3.Or(z3.Select(b_in.dom, x), hit(x)))),
                        ("old-values", z3.ForAll([x], z3.Implies(z3.And(z3.Select(b_in.dom, x), z3.Not(hit(x))), z3.Select(b.val, x) == z3.Select(b_in.val, x)))),
                        ("new-values", z3.ForAll([n], z3.Implies(done.mem(n), z3.Select(b.val, pre(n)) == z3.Select(bs.val, n))))]
            return ex.invariant_for(s, st, it, ordinal, inv, mod_objs=[_reg(me)], label="registry")

        ex = Exec(ctx, summaries={k: v for k, v in layer1.SUMMARIES.items() if k != QUAL_FILL}, module_consts=engine.module_constants(F), fname=label)
        loops = sorted([n for n in _ast.walk(fn) if isinstance(n, (_ast.For, _ast.While))], key=lambda n: (n.lineno, n.col_offset))
        ex.loop_specs = {}
        for k, n in enumerate(loops):
            first = _ast.unparse(n).split("\n")[0]
            if first.startswith("for n in c:"):
                ex.loop_specs[k + 1] = loop_mapping
            elif ".inputs()" in first and "self.blackboxes" in first:
                ex.loop_specs[k + 1] = loop_strip("type")
            elif ".outputs()" in first and "self.blackboxes" in first:
                ex.loop_specs[k + 1] = loop_strip("output")
            elif "c.blackboxes.items()" in first:
                ex.loop_specs[k + 1] = loop_bbs
        st0 = State({}, {}, [])
        me = verify.mk_circuit(ex, st0, "self", wf=False)
        c = verify.mk_circuit(ex, st0, "c", wf=False)
        pin2 = ctx.template(("", ".", ""))
        unpin2 = ctx.template_inverse[("", ".", "")]
        g0, bb0, gc, bc = st0.g(me), st0.bb(me), st0.g(c), st0.bb(c)
        name = NameV(ctx.fresh_name("name"))
        nm = name.term
        # R / Rc: pin nodes removed by the caller earlier (in the parent / in the child); the filled instance itself is
        # treated as entirely exempt (its pins may be absent; present ones are checked to be pins by the code)
        R, Rc = ctx.arr_nb("removed_by_caller"), ctx.arr_nb("removed_in_child")
        _b0 = z3.Select(bb0.val, nm)
        _own = lambda t: z3.And(t == pin2(nm, unpin2(nm, t)), z3.Or(ctx.bb_in(_b0, unpin2(nm, t)), ctx.bb_out(_b0, unpin2(nm, t))))
        st0.pc.append(z3.And(g0.wf(ctx), spec.typed(ctx, g0), spec.wired_edges(ctx, g0),
                             spec.registry_ok(ctx, g0, bb0, pin2, lambda n: z3.Or(z3.Select(R, n), _own(n))),
                             spec.pins_distinct(ctx, bb0, pin2, lambda n: z3.Select(R, n))))
        st0.pc.append(spec.wired(ctx, gc, bc, pin2, lambda n: z3.Select(Rc, n)))
        H["pre"], H["unpre"] = layer2.prefix_fn(ex, name)
        unpre = H["unpre"]
        bterm = z3.Select(bb0.val, nm)
        io_b = lambda n: z3.Or(ctx.bb_in(bterm, n), ctx.bb_out(bterm, n))
        pin = lambda n: pin2(nm, n)
        ispin = lambda t: z3.And(t == pin(unpin2(nm, t)), io_b(unpin2(nm, t)))
        img = lambda t: z3.And(t == pre(unpre(t)), gc.node(unpre(t)))
        waspin = lambda t: z3.And(img(t), io_b(unpre(t)), g0.node(pin(unpre(t))))
        back = lambda t: z3.If(waspin(t), pin(unpre(t)), t)
        N1 = lambda t: z3.Or(z3.And(g0.node(t), z3.Not(ispin(t))), waspin(t))
        def cut_after_update(ex_, st):
            g = st.g(me)
            t, u, v = ctx.fresh_name("ct"), ctx.fresh_name("cu"), ctx.fresh_name("cv")
            return {"forget": ("rl_", "relabel_source", "N!", "FI!", "hasty!", "hasout!", "ty!", "out!"), "facts": [
                ("merged:nodes", z3.ForAll([t], g.node(t) == z3.Or(z3.And(g0.node(t), z3.Not(ispin(t))), img(t)))),
                ("merged:edges", z3.ForAll([u, v], g.edge(u, v) == z3.Or(z3.And(N1(u), N1(v), g0.edge(back(u), back(v))),
                                                                         z3.And(img(u), img(v), gc.edge(unpre(u), unpre(v)))))),
                ("merged:hasty", z3.ForAll([t], z3.Select(g.hasty, t) == z3.If(img(t), z3.Select(gc.hasty, unpre(t)), z3.And(z3.Select(g0.hasty, t), z3.Not(ispin(t)))))),
                ("merged:types", z3.ForAll([t], z3.Implies(z3.Select(g.hasty, t), z3.Select(g.ty, t) == z3.If(img(t), z3.Select(gc.ty, unpre(t)), z3.Select(g0.ty, t))))),
                ("merged:output-flags-on-nodes", z3.ForAll([t], z3.Implies(z3.Select(g.hasout, t), g.node(t)))),
            ]}
        ex.cuts = {}
        for n_ in _ast.walk(fn):
            if isinstance(n_, _ast.Expr) and isinstance(n_.value, _ast.Call) and getattr(n_.value.func, "attr", "") == "update":
                ex.cuts[("node", id(n_))] = cut_after_update
        bind = {"self": me, "name": name, "c": c}
        outs = verify.bind_and_run(ex, fn, st0, bind)
        n_ret = n_exc = 0
        for o in outs:
            i = o.st.pathid()
            g1, bb1 = o.st.g(me), o.st.bb(me)
            what = "raise(" + str(o.exc) + ")" if o.kind == "raise" else "return"
            for lab, f in [("graph-invariant", g1.wf(ctx)), ("typed", spec.typed(ctx, g1)), ("wiring", spec.wired_edges(ctx, g1)),
                           ("registry", spec.registry_ok(ctx, g1, bb1, pin2, (lambda n: z3.Or(z3.Select(R, n), _own(n))) if o.kind == "raise" else
                                                         (lambda n: z3.Or(z3.Select(R, n), z3.And(n == pre(unpre(n)), z3.Select(Rc, unpre(n))))))),
                           ("pins-of-distinct-instances", spec.pins_distinct(ctx, bb1, pin2, (lambda n: z3.Select(R, n)) if o.kind == "raise" else
                                                                              (lambda n: z3.Or(z3.Select(R, n), z3.And(n == pre(unpre(n)), z3.Select(Rc, unpre(n)))))))]:
                ctx.oblige(f"{label}/wired#{i}:{what}:{lab}", o.st.pc, f, "post")
            if o.kind == "raise":
                n_exc += 1
                ctx.oblige(f"{label}/rejected-call-leaves-graph#{i}:{what}", o.st.pc, g1.same(g0, ctx), "post")
                ctx.oblige(f"{label}/rejected-call-keeps-registry#{i}:{what}", o.st.pc, bb1.same(bb0, ctx), "post")
                ctx.oblige(f"{label}/rejected-call-class#{i}:{what}", o.st.pc, z3.BoolVal(o.exc in ("ValueError", "KeyError")), "post")
            else:
                n_ret += 1
                ctx.oblige(f"{label}/filled-instance-unregistered#{i}", o.st.pc, z3.Not(z3.Select(bb1.dom, nm)), "post")
                # C06 (structure of the splice): a renamed copy of c replaces the instance's pin nodes
                t, u, v = ctx.fresh_name("st"), ctx.fresh_name("su"), ctx.fresh_name("sv")
                in_b = lambda n_: ctx.bb_in(bterm, n_)
                bimg = lambda t_: z3.And(t_ == pre(unpre(t_)), z3.Select(bc.dom, unpre(t_)))
                splice = [
                    ("nodes", z3.ForAll([t], g1.node(t) == z3.Or(z3.And(g0.node(t), z3.Not(ispin(t))), img(t)))),
                    ("copied-types", z3.ForAll([t], z3.Implies(img(t), z3.And(z3.Select(g1.hasty, t), z3.Select(g1.ty, t) ==
                                                                              z3.If(in_b(unpre(t)), T["buf"], z3.Select(gc.ty, unpre(t))))))),
                    ("other-types", z3.ForAll([t], z3.Implies(z3.And(g0.node(t), z3.Not(ispin(t)), z3.Not(img(t))), z3.Select(g1.ty, t) == z3.Select(g0.ty, t)))),
                    ("edges", z3.ForAll([u, v], g1.edge(u, v) == z3.Or(z3.And(N1(u), N1(v), g0.edge(back(u), back(v))),
                                                                        z3.And(img(u), img(v), gc.edge(unpre(u), unpre(v)))))),
                    ("registry-domain", z3.ForAll([t], z3.Select(bb1.dom, t) == z3.Or(z3.And(z3.Select(bb0.dom, t), t != nm), bimg(t)))),
                    ("registry-values", z3.ForAll([t], z3.Implies(z3.Select(bb1.dom, t), z3.Select(bb1.val, t) ==
                                                                  z3.If(bimg(t), z3.Select(bc.val, unpre(t)), z3.Select(bb0.val, t))))),
                ]
                for lab, f in splice:
                    ctx.oblige(f"{label}/splice#{i}:{lab}", o.st.pc, f, "post")
        ctx.oblige(f"{label}/cover:returns-and-rejects", [], z3.BoolVal(n_ret > 0 and n_exc > 0), "cover")
        return {"function": f"{F}::{QUAL_FILL}", "sha256": sha, "lines": engine.abs_lines(fn), "variants": [label], "kind": "postcondition on the body"}
    return run


TASKS["C07/fill_blackbox on the body"] = task_fill_blackbox()
