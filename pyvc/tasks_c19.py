"""C19 frame tasks: one per public function of tx, props, sat, the io writers, utils.lint/visualize and every
read-only Circuit method (collected from the source on every run)."""
import ast

import z3

from pyvc import engine, frame

MODULES = {"tx": "circuitgraph/tx.py", "props": "circuitgraph/props.py", "sat": "circuitgraph/sat.py"}
IO_WRITERS = ["circuit_to_verilog", "circuit_to_bench", "to_file"]
UTILS = ["lint", "visualize"]


def _task(relpath, qual):
    def run(ctx):
        fr = frame.Frame(relpath, qual)
        for name, ok, bad in fr.run():
            ctx.oblige(f"{qual}/{name}", [], z3.BoolVal(True) if ok else z3.Bool("may_touch_" + "_".join(bad)[:60].replace(" ", "")), "frame-abs")
        return {"function": f"{relpath}::{qual}", "sha256": fr.sha, "lines": engine.abs_lines(fr.fn),
                "variants": ["frame mode: values abstracted, all branches"], "circuit_params": fr.circ_params}
    return run


def collect():
    tasks = {}
    for mod, rel in MODULES.items():
        _, tree = engine.module_ast(rel)
        for n in tree.body:
            if isinstance(n, ast.FunctionDef) and not n.name.startswith("_"):
                tasks[f"C19/frame/{mod}.{n.name}"] = _task(rel, n.name)
    for f in IO_WRITERS:
        tasks[f"C19/frame/io.{f}"] = _task("circuitgraph/io.py", f)
    for f in UTILS:
        tasks[f"C19/frame/utils.{f}"] = _task("circuitgraph/utils.py", f)
    _, tree = engine.module_ast("circuitgraph/circuit.py")
    for n in tree.body:
        if isinstance(n, ast.ClassDef) and n.name == "Circuit":
            for m in n.body:
                if isinstance(m, ast.FunctionDef) and m.name not in frame.CIRCUIT_MUTATORS and m.name not in ("__init__",):
                    tasks[f"C19/frame/Circuit.{m.name}"] = _task("circuitgraph/circuit.py", f"Circuit.{m.name}")
    return tasks


TASKS = collect()
