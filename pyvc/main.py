"""pyvc driver:  python3-vt -m pyvc.main --prop C07 --tier quick --out result.json
                  python3-vt -m pyvc.main --relock            (regenerates obligations.lock.json on the current tree)

Runs every verification task registered for the property (pyvc/plan.py), each in its own process:
VCs are generated from the *current* source text of /repo and solved; results are compared with the lock file."""
import argparse
import importlib
import json
import multiprocessing as mp
import os
import sys
import time
import traceback

HERE = os.path.dirname(os.path.dirname(os.path.abspath(__file__)))
LOCK = os.path.join(HERE, "obligations.lock.json")


def all_tasks():
    from pyvc import plan
    tasks = {}
    for m in plan.TASK_MODULES:
        mod = importlib.import_module(m)
        tasks.update(mod.TASKS)
    return tasks


def run_task(name):
    """runs in a worker process"""
    from pyvc import verify, models
    from pyvc.engine import Ctx, Unsupported
    t0 = time.time()
    out = {"task": name, "obligations": [], "function": None, "status": "ok", "assumed": []}
    try:
        task = all_tasks()[name]
        ctx = Ctx()
        info = task(ctx)
        out["function"] = info
        relock = bool(os.environ.get("PYVC_RELOCK"))
        hints = {}
        if not relock and os.path.exists(LOCK) and not os.environ.get("PYVC_NO_HINTS"):
            hints = json.load(open(LOCK)).get(name, {}).get("hints", {})
        out["hints"] = {}
        if not ctx.obligations:
            out["status"] = "vacuous"
        timeout = int(os.environ.get("PYVC_TIMEOUT_MS", "10000"))
        nbad = 0
        for ob in ctx.obligations:
            if nbad >= 3:
                # budget: after three failures the remaining VCs of this task are not attempted (undecided)
                out["obligations"].append({"id": ob["id"], "kind": ob["kind"], "status": "unknown", "detail": "not attempted: three obligations of this task already failed", "time": 0, "solver": None})
                continue
            if nbad >= 1:
                os.environ["PYVC_NO_PORTFOLIO"] = "1"
            if ob["id"] in hints:
                ob["hint"] = hints[ob["id"]]
            r = verify.solve(ctx, ob, timeout)
            out["obligations"].append(r)
            if r["status"] != "discharged":
                nbad += 1
                if os.environ.get("PYVC_STOP_FIRST"):
                    break
            elif relock and r["time"] > 0.3 and ob["kind"] not in ("frame-abs", "cover-sat", "strfact"):
                # record which hypotheses the proof needs: the next runs try these first (small, stable query)
                core = verify.core_of(ctx, ob, int(min(60000, max(10000, 4000 * r["time"]))))
                if core is not None and len(core) < len(ob["hyps"]):
                    out["hints"][ob["id"]] = core
        # string axioms of this context, over the theory of strings (generated after the other VCs are solved:
        # creating string-sorted terms was seen to perturb z3's search on unrelated queries of the same process)
        n0 = len(ctx.obligations)
        if ctx.obligations:
            verify.add_strfact_obligations(ctx, name)
        for ob in ctx.obligations[n0:]:
            r = verify.solve(ctx, ob, timeout)
            out["obligations"].append(r)
            if r["status"] != "discharged":
                nbad += 1
        need = [o for o in out["obligations"] if o["status"] == "needs-finite"]
        if need:
            fctx = Ctx(finite=6)
            task(fctx)
            fobs = {ob["id"]: ob for ob in fctx.obligations}
            for o in need:
                r = verify.solve(fctx, fobs[o["id"]], 30000) if o["id"] in fobs else {"status": "unknown"}
                o.update({k: r[k] for k in ("status", "solver", "time") if k in r})
        out["strfacts"] = len(ctx.strfacts)
        # failed obligations are re-posed over a finite universe of names, where a false VC has a counter-model
        # that z3 finds (DESIGN 3.4): `unknown` becomes `refuted` only with such a definite model
        bad = [o for o in out["obligations"] if o["status"] == "unknown" and o.get("solver") is not None or o["status"] == "unknown" and "timeout" in str(o.get("detail"))][:3]
        if bad and not os.environ.get("PYVC_NO_FINITE"):
            for k in (4, 6):
                fctx = Ctx(finite=k)
                try:
                    task(fctx)
                except Exception:
                    break
                fobs = {ob["id"]: ob for ob in fctx.obligations}
                still = []
                for o in bad:
                    ob = fobs.get(o["id"])
                    if ob is None:
                        continue
                    r = verify.solve(fctx, ob, 15000)
                    if r["status"] == "refuted":
                        o["status"] = "refuted"
                        o["detail"] = f"counter-model over a universe of {k} names"
                        o["model"] = r.get("model", "")[:2500]
                        o["solver"] = r["solver"] + f" finite-scope({k})"
                        # the counter-model as a concrete input, run on the real code by the bounded module's oracle
                        prop = os.environ.get("PYVC_PROP")
                        ins = ob.get("inputs")
                        if prop and ins and r.get("_model") is not None:
                            from pyvc import replay as _replay
                            rp = _replay.replay(name, prop, fctx, ins.get("ex"), r["_model"], ins)
                            if rp:
                                o["replayed"] = True
                                o["replay_case"] = rp["case"]
                                o["detail"] += f"; replayed on the real code: {rp['failures']}"
                    else:
                        still.append(o)
                bad = still
                if not bad:
                    break
    except Unsupported as u:
        out["status"] = "outside-subset"
        out["detail"] = str(u)
    except (KeyError, AttributeError, TypeError, IndexError) as ex_:
        # typically: an invariant/contract refers to a local or shape that the (changed) function no longer has
        out["status"] = "outside-subset"
        out["detail"] = f"contract no longer applicable to this body ({type(ex_).__name__}: {ex_}); " + traceback.format_exc()[-300:]
    except Exception:
        out["status"] = "crash"
        out["detail"] = traceback.format_exc()[-2000:]
    for o in out["obligations"]:
        o.pop("_model", None)
    out["assumed"] = sorted(models.ASSUMED_USED)
    from pyvc import engine as _engine
    out["locals"] = dict(_engine.LOCALS_SEEN)
    out["shas"] = dict(_engine.SHA_SEEN)  # every function whose source this task read
    out["wall_s"] = round(time.time() - t0, 2)
    return out


def main():
    ap = argparse.ArgumentParser()
    ap.add_argument("--prop")
    ap.add_argument("--tier", default="quick")
    ap.add_argument("--out")
    ap.add_argument("--relock", action="store_true")
    ap.add_argument("--procs", type=int, default=int(os.environ.get("VERIF_PROCS", "16")))
    a = ap.parse_args()
    from pyvc import plan
    tasks = all_tasks()
    if a.prop:
        os.environ["PYVC_PROP"] = a.prop
    if a.relock:
        os.environ["PYVC_RELOCK"] = "1"
        names = sorted(tasks)
    else:
        names = [t for t in plan.PROPERTY_TASKS.get(a.prop, []) if t in tasks]
        missing = [t for t in plan.PROPERTY_TASKS.get(a.prop, []) if t not in tasks]
        if missing:
            print("unknown tasks in plan:", missing, file=sys.stderr)
            sys.exit(3)
    with mp.Pool(min(a.procs, max(1, len(names)))) as pool:
        if a.relock:
            results = []
            for r in pool.imap_unordered(run_task, names, chunksize=1):
                results.append(r)
                print(f"  .. {r['task']} {r['status']} {r['wall_s']}s", file=sys.stderr, flush=True)
            results.sort(key=lambda r: names.index(r["task"]))
        else:
            results = pool.map(run_task, names, chunksize=1)
    if a.relock:
        lock = {}
        for r in results:
            lock[r["task"]] = {
                "status": r["status"],
                "sha256": (r["function"] or {}).get("sha256") if isinstance(r["function"], dict) else None,
                "discharged": sorted(o["id"] for o in r["obligations"] if o["status"] == "discharged"),
                "not_discharged": sorted(o["id"] + ":" + o["status"] for o in r["obligations"] if o["status"] != "discharged"),
                "hints": r.get("hints", {}),
                "shas": r.get("shas", {}),
            }
            print(f"{r['task']:45s} {r['status']:15s} {len(lock[r['task']]['discharged'])}/{len(r['obligations'])} {r['wall_s']}s {r.get('detail','')[:200]}")
        lock["__locals__"] = {}
        for r in results:
            lock["__locals__"].update(r.get("locals", {}))
        json.dump(lock, open(LOCK, "w"), indent=1, sort_keys=True)
        return
    lock = json.load(open(LOCK)) if os.path.exists(LOCK) else {}
    obligations, functions, assumed = [], [], set()
    by_solver = {}
    crash = None
    for r in results:
        lk = lock.get(r["task"], {})
        # did the source of any function this task reads change since the lock was made?
        # (a task that stops early has read fewer functions: only those it did read are compared)
        code_changed = bool(lk.get("shas")) and any(lk["shas"].get(k_) != v_ for k_, v_ in (r.get("shas") or {}).items())
        fully_proved_in_lock = bool(lk) and lk.get("status") == "ok" and not lk.get("not_discharged")
        assumed.update(r.get("assumed", []))
        f = r["function"] if isinstance(r["function"], dict) else {"function": r["task"]}
        f = dict(f)
        f["task"] = r["task"]
        if r["status"] == "crash":
            crash = r["detail"]
            f["status"] = "crash"
        elif r["status"] in ("outside-subset", "vacuous"):
            f["status"] = r["status"]
            f["detail"] = r.get("detail", "")
            # every obligation that the lock recorded as discharged is now undecided
            for oid in lk.get("discharged", []) or [r["task"] + "/all"]:
                obligations.append({"id": oid, "status": "unknown", "detail": f"{r['status']}: {r.get('detail','')}", "time": 0, "solver": None, "task": r["task"],
                                    "was_discharged_in_lock": True, "code_changed": code_changed and fully_proved_in_lock})
        else:
            got = {o["id"]: o for o in r["obligations"]}
            # vacuity guard: far fewer obligations than when the lock was made means the contract no longer bites
            lost = []
            if len(got) * 2 < len(lk.get("discharged", [])):
                lost = [oid for oid in lk.get("discharged", []) if oid not in got][:5]
            n_ok = sum(1 for o in r["obligations"] if o["status"] == "discharged")
            f["status"] = "proved" if n_ok == len(r["obligations"]) and not lost else "not-proved"
            f["obligations"] = len(r["obligations"])
            f["changed_since_lock"] = bool(lk) and lk.get("sha256") != f.get("sha256")
            for o in r["obligations"]:
                o["task"] = r["task"]
                o["was_discharged_in_lock"] = o["id"] in lk.get("discharged", [])
                o["code_changed"] = code_changed and fully_proved_in_lock
                obligations.append(o)
                if o["status"] == "discharged":
                    by_solver[o["solver"]] = by_solver.get(o["solver"], 0) + 1
            for oid in lost:
                obligations.append({"id": oid, "status": "unknown", "detail": "obligation no longer generated (shape of the function changed)", "time": 0, "solver": None, "task": r["task"],
                                    "was_discharged_in_lock": True, "code_changed": code_changed and fully_proved_in_lock})
        functions.append(f)
    if crash:
        print(crash, file=sys.stderr)
        sys.exit(3)
    res = {
        "obligations": obligations,
        "functions": functions,
        "by_solver": by_solver,
        "checker_cmd": f"python3-vt -m pyvc.main --prop {a.prop} --tier {a.tier}",
        "trusted_base": plan.TRUSTED_BASE,
        "assumptions": plan.ASSUMPTIONS + ["assumed dependency contract: " + x for x in sorted(assumed)]
        + [f"contract of {fn_} used by this proof is discharged by the check of {home} (its home property), not re-verified here" for fn_, home in plan.DEPENDS_ON.get(a.prop, [])],
        "depends_on": [{"function": fn_, "verified_under": home} for fn_, home in plan.DEPENDS_ON.get(a.prop, [])],
        "extraction_drops": plan.EXTRACTION_DROPS,
    }
    json.dump(res, open(a.out, "w") if a.out else sys.stdout, default=str)


if __name__ == "__main__":
    main()
