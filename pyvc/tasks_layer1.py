"""Verification tasks for layer 1 (circuit.py thin methods): body == contract, per argument-shape variant."""
import z3

from contracts import layer1
from pyvc import engine, verify
from pyvc.engine import NameV, State
from pyvc.exec import Exec

F = layer1.F


def _ex(ctx, fname, loop_specs=None):
    consts = engine.module_constants(F)
    return Exec(ctx, summaries=dict(layer1.SUMMARIES), module_consts=consts, loop_specs=loop_specs or {}, fname=fname)


def _arg(ex, shape, tag):
    if shape == "str":
        return verify.note_arg(ex, tag, NameV(ex.ctx.fresh_name(tag)))
    if shape == "list":
        return verify.mk_names(ex, tag, is_list=True)
    if shape == "set":
        return verify.mk_names(ex, tag, is_list=False)
    raise ValueError(shape)


def refine_task(qual, variants, params, typed=False, exclude_self_summary=True):
    """generic: run the real body of circuit.py::<qual> for each variant and compare with its summary."""
    def run(ctx):
        fn, seg, sha = engine.find_function(F, qual)
        info = {"function": f"{F}::{qual}", "sha256": sha, "lines": engine.abs_lines(fn), "variants": []}
        for vname, shapes in variants.items():
            label = f"{qual}[{vname}]"
            ex = _ex(ctx, label)
            if exclude_self_summary:
                ex.summaries = {k: v for k, v in ex.summaries.items() if k != qual}
            st0 = State({}, {}, [])
            me = verify.mk_circuit(ex, st0, "self")
            if typed:
                from pyvc import spec
                st0.pc.append(spec.typed(ctx, st0.g(me)))
            args = [_arg(ex, sh, p) for p, sh in zip(params, shapes)]
            bind = {"self": me}
            bind.update(dict(zip(params, args)))
            body = verify.bind_and_run(ex, fn, st0, bind)
            specs = verify.run_summary(ex, layer1.SUMMARIES[qual], st0, me, args, {})
            verify.refine_vcs(ex, label, st0, body, specs)
            info["variants"].append(vname)
        return info
    return run


TASKS = {
    "layer1/Circuit.type": refine_task("Circuit.type", {"str": ["str"]}, ["ns"]),
    "layer1/Circuit.is_output": refine_task("Circuit.is_output", {"str": ["str"]}, ["node"]),
    "layer1/Circuit.fanin": refine_task("Circuit.fanin", {"str": ["str"], "list": ["list"], "set": ["set"]}, ["ns"]),
    "layer1/Circuit.fanout": refine_task("Circuit.fanout", {"str": ["str"], "list": ["list"], "set": ["set"]}, ["ns"]),
    "layer1/Circuit.nodes": refine_task("Circuit.nodes", {"": []}, []),
    "layer1/Circuit.edges": refine_task("Circuit.edges", {"": []}, []),
    "layer1/Circuit.connect": refine_task("Circuit.connect", {"str,str": ["str", "str"], "list,list": ["list", "list"], "str,list": ["str", "list"],
                                                             "list,str": ["list", "str"], "set,str": ["set", "str"], "str,set": ["str", "set"],
                                                             "list,set": ["list", "set"], "set,list": ["set", "list"], "set,set": ["set", "set"]},
                                          ["us", "vs"], typed=True),
    "layer1/Circuit.disconnect": refine_task("Circuit.disconnect", {"str,str": ["str", "str"], "list,list": ["list", "list"], "str,list": ["str", "list"],
                                                                   "list,str": ["list", "str"], "set,str": ["set", "str"], "str,set": ["str", "set"],
                                                                   "list,set": ["list", "set"], "set,list": ["set", "list"], "set,set": ["set", "set"]}, ["us", "vs"]),
    "layer1/Circuit.remove": refine_task("Circuit.remove", {"str": ["str"], "list": ["list"], "set": ["set"]}, ["ns"]),
}


# ---- loops of the thin wrappers: `for n in ns: gates |= set(self.graph.predecessors(n))`
def _union_loop(edge_dir):
    def spec(ex, s, st, it, ordinal):
        me = st.env["self"]
        def inv(ex, stx, done):
            g = stx.g(me)
            acc = stx.env["gates"]
            y, n = ex.ctx.fresh_name("uy"), ex.ctx.fresh_name("un")
            r = ex.reach(g)
            e = {"in": lambda a, b: g.edge(a, b), "out": lambda a, b: g.edge(b, a), "anc": lambda a, b: r(a, b), "desc": lambda a, b: r(b, a)}[edge_dir]
            return z3.And(z3.ForAll([y], acc.mem(y) == z3.Exists([n], z3.And(done.mem(n), e(y, n)))),
                          z3.ForAll([n], z3.Implies(done.mem(n), g.node(n))))  # no visited element raised
        return ex.invariant_for(s, st, it, ordinal, inv, mod_locals=["gates"])
    return spec


def refine_task_loops(qual, variants, params, loops, **kw):
    base = refine_task(qual, variants, params, **kw)
    def run(ctx):
        global _LOOPS
        _LOOPS = loops
        try:
            return base(ctx)
        finally:
            _LOOPS = {}
    return run


_LOOPS = {}
_orig_ex = _ex


def _ex(ctx, fname, loop_specs=None):  # noqa: F811
    return _orig_ex(ctx, fname, loop_specs or _LOOPS)


TASKS["layer1/Circuit.fanin"] = refine_task_loops("Circuit.fanin", {"str": ["str"], "list": ["list"], "set": ["set"]}, ["ns"], {1: _union_loop("in")})
TASKS["layer1/Circuit.fanout"] = refine_task_loops("Circuit.fanout", {"str": ["str"], "list": ["list"], "set": ["set"]}, ["ns"], {1: _union_loop("out")})


# ---- attribute setters: `for n in ns: self.graph.nodes[n][attr] = value`
def _setter_loop(attr):
    def spec(ex, s, st, it, ordinal):
        me = st.env["self"]
        g0 = st.g(me)
        val = ex.truthy(st.env["output"]) if attr == "out" else ex.type_term(st.env["t"])
        def inv(ex, stx, done):
            g = stx.g(me)
            x = ex.ctx.fresh_name("lx")
            arr, has = ("out", "hasout") if attr == "out" else ("ty", "hasty")
            return z3.And(
                z3.ForAll([x], z3.Select(getattr(g, arr), x) == z3.If(done.mem(x), val, z3.Select(getattr(g0, arr), x))),
                z3.ForAll([x], z3.Select(getattr(g, has), x) == z3.Or(z3.Select(getattr(g0, has), x), done.mem(x))),
                g.same(g0, ex.ctx, fields=[f for f in g.FIELDS if f not in (arr, has)]),
                z3.ForAll([x], z3.Implies(done.mem(x), g.node(x))))
        return ex.invariant_for(s, st, it, ordinal, inv, mod_objs=[me])
    return spec


def _requires_present(ex, st0, me, args):
    """variant restriction of the setters' list shapes: every element is a node (see contracts/layer1._all_present)"""
    from pyvc.exec import Coll
    g = st0.g(me)
    if isinstance(args[0], Coll):
        x = ex.ctx.fresh_name("rq")
        st0.pc.append(z3.ForAll([x], z3.Implies(args[0].mem(x), g.node(x))))


def setter_task(qual, params, extra_shapes, loop, requires=None):
    def run(ctx):
        fn, seg, sha = engine.find_function(F, qual)
        info = {"function": f"{F}::{qual}", "sha256": sha, "lines": engine.abs_lines(fn), "variants": []}
        for vname, shapes in {"str": ["str"], "list(all present)": ["list"], "set(all present)": ["set"]}.items():
            label = f"{qual}[{vname}]"
            ex = _orig_ex(ctx, label, {1: loop})
            ex.summaries = {k: v for k, v in ex.summaries.items() if k != qual}
            st0 = State({}, {}, [])
            me = verify.mk_circuit(ex, st0, "self")
            args = [_arg(ex, shapes[0], params[0])] + [mk(ex) for mk in extra_shapes]
            _requires_present(ex, st0, me, args)
            bind = {"self": me}
            bind.update(dict(zip(params, args)))
            body = verify.bind_and_run(ex, fn, st0, bind)
            specs = verify.run_summary(ex, layer1.SUMMARIES[qual], st0, me, args, {})
            verify.refine_vcs(ex, label, st0, body, specs)
            info["variants"].append(vname)
        return info
    return run


def _sym_bool(ex):
    return verify.note_arg(ex, "flag", ex.ctx.fresh("flag", z3.BoolSort()))


def _sym_type(ex):
    from pyvc.engine import TypeV
    return TypeV(ex.ctx.fresh("t", ex.ctx.T))


TASKS["layer1/Circuit.set_output"] = setter_task("Circuit.set_output", ["ns", "output"], [_sym_bool], _setter_loop("out"))
TASKS["layer1/Circuit.set_type"] = setter_task("Circuit.set_type", ["ns", "t"], [_sym_type], _setter_loop("ty"))
TASKS["layer1/Circuit.outputs"] = refine_task("Circuit.outputs", {"": []}, [])
TASKS["layer1/Circuit.inputs"] = refine_task("Circuit.inputs", {"": []}, [])
TASKS["layer1/Circuit.io"] = refine_task("Circuit.io", {"": []}, [])
_SHAPES = {"str": ["str"], "list": ["list"], "set": ["set"]}
TASKS["layer1/Circuit.startpoints"] = refine_task("Circuit.startpoints", dict({"no-arg": []}, **_SHAPES), ["ns"], exclude_self_summary=False)
TASKS["layer1/Circuit.endpoints"] = refine_task("Circuit.endpoints", dict({"no-arg": []}, **_SHAPES), ["ns"], exclude_self_summary=False)
TASKS["layer1/Circuit.is_cyclic"] = refine_task("Circuit.is_cyclic", {"": []}, [])
TASKS["layer1/Circuit.transitive_fanin"] = refine_task_loops("Circuit.transitive_fanin", _SHAPES, ["ns"], {1: _union_loop("anc")})
TASKS["layer1/Circuit.transitive_fanout"] = refine_task_loops("Circuit.transitive_fanout", _SHAPES, ["ns"], {1: _union_loop("desc")})


# ---- uid: `while f"{n}_{i}" in self.graph or ... in blocked: i = i+1 | i*7`
def _uid_loop(ex, s, st, it, ordinal):
    def inv(ex, stx):
        return ex.num(stx.env["i"]) >= 0
    return ex.invariant_while(s, st, ordinal, inv, mod_locals=["i"])


def uid_task(ctx):
    qual = "Circuit.uid"
    fn, seg, sha = engine.find_function(F, qual)
    ex = _orig_ex(ctx, qual + "[str]", {1: _uid_loop})
    ex.summaries = {k: v for k, v in ex.summaries.items() if k != qual}
    st0 = State({}, {}, [])
    me = verify.mk_circuit(ex, st0, "self")
    n = _arg(ex, "str", "n")
    g0 = st0.g(me)
    for i, o in enumerate(verify.bind_and_run(ex, fn, st0, {"self": me, "n": n})):
        i = o.st.pathid()
        if o.kind != "return":
            ctx.oblige(f"{qual}[str]/post#{i}:never-raises", o.st.pc, z3.BoolVal(False), "post")
            continue
        r = ex.name_term(o.value)
        ctx.oblige(f"{qual}[str]/post#{i}:result-is-not-a-node", o.st.pc, z3.Not(g0.node(r)), "post")
        ctx.oblige(f"{qual}[str]/post#{i}:free-name-is-kept", o.st.pc, z3.Implies(z3.Not(g0.node(n.term)), r == n.term), "post")
        ctx.oblige(f"{qual}[str]/frame#{i}", o.st.pc, verify.heap_eq(ex, o.st.heap, st0.heap, list(st0.heap)), "frame")
    return {"function": f"{F}::{qual}", "sha256": sha, "lines": engine.abs_lines(fn), "variants": ["str (blocked=None)"]}


TASKS["layer1/Circuit.uid"] = uid_task


def add_task(uid):
    def run(ctx):
        qual = "Circuit.add"
        fn, seg, sha = engine.find_function(F, qual)
        info = {"function": f"{F}::{qual}", "sha256": sha, "lines": engine.abs_lines(fn), "variants": []}
        from pyvc import spec
        from pyvc.engine import NONE, TypeV
        shapes = {"none": lambda ex, tag: NONE, "str": lambda ex, tag: _arg(ex, "str", tag), "list": lambda ex, tag: _arg(ex, "list", tag)}
        for fi_shape in shapes:
            for fo_shape in shapes:
                label = f"{qual}[uid={uid},fanin={fi_shape},fanout={fo_shape}]"
                ex = _orig_ex(ctx, label, {})
                ex.summaries = {k: v for k, v in ex.summaries.items() if k != qual}
                st0 = State({}, {}, [])
                me = verify.mk_circuit(ex, st0, "self")
                st0.pc.append(spec.typed(ctx, st0.g(me)))
                n = _arg(ex, "str", "n")
                t = TypeV(ctx.fresh("node_type", ctx.T))
                fi, fo = shapes[fi_shape](ex, "fanin"), shapes[fo_shape](ex, "fanout")
                outp = ctx.fresh("output", z3.BoolSort())
                bind = {"self": me, "n": n, "node_type": t, "fanin": fi, "fanout": fo, "output": outp, "uid": uid}
                body = verify.bind_and_run(ex, fn, st0, bind)
                specs = verify.run_summary(ex, layer1.SUMMARIES[qual], st0, me, [n, t], {"fanin": fi, "fanout": fo, "output": outp, "uid": uid})
                verify.refine_vcs(ex, label, st0, body, specs)
                info["variants"].append(label)
        return info
    return run


TASKS["layer1/Circuit.add[default]"] = add_task(False)
TASKS["layer1/Circuit.add[uid]"] = add_task(True)


from contracts import layer2  # noqa: E402
layer1.SUMMARIES.update(layer2.SUMMARIES)
TASKS["layer1/Circuit.copy"] = refine_task("Circuit.copy", {"": []}, [])
