"""C04: tx.miter.  (1) structural post on the real body; (2) encoding lemma over the structure."""
import z3

from contracts import layer1, layer2
from pyvc import engine, spec, verify
from pyvc.engine import NONE, NameV, State, StrLit
from pyvc.exec import Coll, Exec

F = "circuitgraph/tx.py"
layer1.SUMMARIES.update(layer2.SUMMARIES)



def prefix_fns(ctx):
    c0p = lambda n: ctx.template(("c0_", ""))(n)
    c1p = lambda n: ctx.template(("c1_", ""))(n)
    difp = lambda n: ctx.template(("dif_", ""))(n)
    c0p(ctx.fresh_name("w")), c1p(ctx.fresh_name("w")), difp(ctx.fresh_name("w"))
    return c0p, c1p, difp, ctx.template_inverse[("c0_", "")], ctx.template_inverse[("c1_", "")], ctx.template_inverse[("dif_", "")]


def structure_posts(ctx, gm, g0, g1, S_eff, E_eff, with_sat=True):
    """the structural postcondition of miter: proved on the body by the structure tasks, assumed by the encoding lemma.
    The same clauses, taken over the startpoints / endpoints processed so far, are the loop invariants."""
    T = ctx.tval
    c0p, c1p, difp, unc0, unc1, undif = prefix_fns(ctx)
    sat = ctx.name_lit("sat")
    x, y = ctx.fresh_name("px"), ctx.fresh_name("py")
    in0 = lambda t: z3.And(t == c0p(unc0(t)), g0.node(unc0(t)))
    in1 = lambda t: z3.And(t == c1p(unc1(t)), g1.node(unc1(t)))
    isdif = lambda t: z3.And(t == difp(undif(t)), E_eff.mem(undif(t)))
    ty = lambda t: z3.Select(gm.ty, t)
    strip = lambda g, n: z3.If(z3.Select(g.ty, n) == T["input"], T["buf"], z3.Select(g.ty, n))
    posts = {
        "node-set": z3.ForAll([x], gm.node(x) == z3.Or(in0(x), in1(x), S_eff.mem(x), x == sat, isdif(x))),
        "parts-are-disjoint": z3.ForAll([x], z3.And(
            z3.Not(z3.And(in0(x), in1(x))), z3.Not(z3.And(in0(x), S_eff.mem(x))), z3.Not(z3.And(in1(x), S_eff.mem(x))),
            z3.Not(z3.And(z3.Or(in0(x), in1(x), S_eff.mem(x)), z3.Or(x == sat, isdif(x)))), z3.Not(isdif(sat)))),
        "copy0-types": z3.ForAll([x], z3.Implies(g0.node(x), z3.And(z3.Select(gm.hasty, c0p(x)), ty(c0p(x)) == strip(g0, x)))),
        "copy1-types": z3.ForAll([x], z3.Implies(g1.node(x), z3.And(z3.Select(gm.hasty, c1p(x)), ty(c1p(x)) == strip(g1, x)))),
        "tied-are-inputs": z3.ForAll([x], z3.Implies(S_eff.mem(x), z3.And(z3.Select(gm.hasty, x), ty(x) == T["input"]))),
        "dif-are-xors": z3.ForAll([x], z3.Implies(E_eff.mem(x), z3.And(z3.Select(gm.hasty, difp(x)), ty(difp(x)) == T["xor"]))),
        "sat-type": z3.And(z3.Select(gm.hasty, sat), z3.Or(ty(sat) == T["or"], ty(sat) == T["buf"]),
                           z3.Implies(ty(sat) == T["buf"], z3.ForAll([x, y], z3.Implies(z3.And(E_eff.mem(x), E_eff.mem(y)), x == y)))),
        "fanin-of-copy0": z3.ForAll([x, y], z3.Implies(g0.node(y), gm.edge(x, c0p(y)) == z3.Or(z3.And(in0(x), g0.edge(unc0(x), y)), z3.And(S_eff.mem(y), x == y)))),
        "fanin-of-copy1": z3.ForAll([x, y], z3.Implies(g1.node(y), gm.edge(x, c1p(y)) == z3.Or(z3.And(in1(x), g1.edge(unc1(x), y)), z3.And(S_eff.mem(y), x == y)))),
        "fanin-of-tied-inputs": z3.ForAll([x, y], z3.Implies(S_eff.mem(y), z3.Not(gm.edge(x, y)))),
        "fanin-of-dif": z3.ForAll([x, y], z3.Implies(E_eff.mem(y), gm.edge(x, difp(y)) == z3.Or(x == c0p(y), x == c1p(y)))),
        "fanin-of-sat": z3.ForAll([x], gm.edge(x, sat) == isdif(x)),
        "outputs={sat}": z3.ForAll([x], z3.Implies(gm.node(x), z3.And(z3.Select(gm.hasout, x), z3.Select(gm.out, x)) == (x == sat))),
        "inputs=tied-startpoints": z3.ForAll([x], z3.Implies(gm.node(x), (ty(x) == T["input"]) == S_eff.mem(x))),
    }
    if not with_sat:
        for k in ("sat-type", "fanin-of-sat", "fanin-of-dif", "dif-are-xors"):
            posts.pop(k)
        posts["node-set"] = z3.ForAll([x], gm.node(x) == z3.Or(in0(x), in1(x), S_eff.mem(x)))
        posts["parts-are-disjoint"] = z3.ForAll([x], z3.And(z3.Not(z3.And(in0(x), in1(x))), z3.Not(z3.And(in0(x), S_eff.mem(x))), z3.Not(z3.And(in1(x), S_eff.mem(x)))))
        posts["outputs={sat}"] = z3.ForAll([x], z3.Implies(gm.node(x), z3.Not(z3.And(z3.Select(gm.hasout, x), z3.Select(gm.out, x)))))
    return posts


def structure_task(variant):
    def run(ctx):
        fn, seg, sha = engine.find_function(F, "miter")
        info = {"function": f"{F}::miter", "sha256": sha, "lines": engine.abs_lines(fn), "variants": [variant]}
        T = ctx.tval
        H = {}

        def loop_sp(ex, s, st, it, ordinal):
            m = st.env["m"]
            g_in = st.g(m)
            c0p, c1p = H["c0p"], H["c1p"]
            def inv(ex, stx, done):
                g = stx.g(m)
                x, y = ctx.fresh_name("lx"), ctx.fresh_name("ly")
                return [
                    ("nodes", z3.ForAll([x], g.node(x) == z3.Or(g_in.node(x), done.mem(x)))),
                    ("new-are-inputs", z3.ForAll([x], z3.Implies(done.mem(x), z3.And(z3.Not(g_in.node(x)), z3.Select(g.hasty, x), z3.Select(g.ty, x) == T["input"],
                                                                                   z3.Select(g.hasout, x), z3.Not(z3.Select(g.out, x)))))),
                    ("old-attrs", z3.ForAll([x], z3.Implies(g_in.node(x), z3.And(z3.Select(g.hasty, x) == z3.Select(g_in.hasty, x), z3.Select(g.ty, x) == z3.Select(g_in.ty, x),
                                                                                 z3.Select(g.hasout, x) == z3.Select(g_in.hasout, x), z3.Select(g.out, x) == z3.Select(g_in.out, x))))),
                    ("edges", z3.ForAll([x, y], g.edge(x, y) == z3.Or(g_in.edge(x, y), z3.And(done.mem(x), z3.Or(y == c0p(x), y == c1p(x)))))),
                    ("typed", spec.typed(ctx, g)),
                    ("no-fanin-into-tied", z3.ForAll([x, y], z3.Implies(done.mem(y), z3.Not(g.edge(x, y))))),
                ]
            return ex.invariant_for(s, st, it, ordinal, inv, mod_objs=[m], label="tie-startpoints")

        def loop_ep(ex, s, st, it, ordinal):
            m = st.env["m"]
            g_in = st.g(m)
            c0p, c1p, difp, undif = H["c0p"], H["c1p"], H["difp"], H["undif"]
            sat = ctx.name_lit("sat")
            def inv(ex, stx, done):
                g = stx.g(m)
                x, y = ctx.fresh_name("lx"), ctx.fresh_name("ly")
                isdif = lambda t: z3.And(t == difp(undif(t)), done.mem(undif(t)))
                return [
                    ("nodes", z3.ForAll([x], g.node(x) == z3.Or(g_in.node(x), isdif(x)))),
                    ("new-are-xors", z3.ForAll([x], z3.Implies(isdif(x), z3.And(z3.Not(g_in.node(x)), z3.Select(g.hasty, x), z3.Select(g.ty, x) == T["xor"],
                                                                              z3.Select(g.hasout, x), z3.Not(z3.Select(g.out, x)))))),
                    ("old-attrs", z3.ForAll([x], z3.Implies(g_in.node(x), z3.And(z3.Select(g.hasty, x) == z3.Select(g_in.hasty, x), z3.Select(g.ty, x) == z3.Select(g_in.ty, x),
                                                                                 z3.Select(g.hasout, x) == z3.Select(g_in.hasout, x), z3.Select(g.out, x) == z3.Select(g_in.out, x))))),
                    ("edges", z3.ForAll([x, y], g.edge(x, y) == z3.Or(g_in.edge(x, y),
                                                                      z3.And(isdif(y), z3.Or(x == c0p(undif(y)), x == c1p(undif(y)))),
                                                                      z3.And(isdif(x), y == sat)))),
                    ("typed", spec.typed(ctx, g)),
                    ("fanin-of-old-nodes-but-sat-unchanged", z3.ForAll([x, y], z3.Implies(z3.And(g_in.node(y), y != sat), g.edge(x, y) == g_in.edge(x, y)))),
                    # the three clauses of the postcondition that this loop establishes, over the endpoints compared so far
                    ("outputs={sat}", z3.ForAll([x], z3.Implies(g.node(x), z3.And(z3.Select(g.hasout, x), z3.Select(g.out, x)) == (x == sat)))),
                    ("fanin-of-sat", z3.ForAll([x], g.edge(x, sat) == isdif(x))),
                    ("fanin-of-dif", z3.ForAll([x, y], z3.Implies(done.mem(y), g.edge(x, difp(y)) == z3.Or(x == c0p(y), x == c1p(y))))),
                ] + [(k, f) for k, f in structure_posts(ctx, g, H["g0"], H["g1"], H["S_eff"](), done).items()
                     if k in ("dif-are-xors", "inputs=tied-startpoints")]
            return ex.invariant_for(s, st, it, ordinal, inv, mod_objs=[m], label="compare-endpoints")

        ex = Exec(ctx, summaries=dict(layer1.SUMMARIES), module_consts=engine.module_constants("circuitgraph/circuit.py"),
                  loop_specs={1: loop_sp, 2: loop_ep}, fname=f"miter[{variant}]")
        H["c0p"] = lambda n: ctx.template(("c0_", ""))(n)
        H["c1p"] = lambda n: ctx.template(("c1_", ""))(n)
        H["difp"] = lambda n: ctx.template(("dif_", ""))(n)
        H["c0p"](ctx.fresh_name("w")), H["c1p"](ctx.fresh_name("w")), H["difp"](ctx.fresh_name("w"))
        H["undif"] = ctx.template_inverse[("dif_", "")]
        st0 = State({}, {}, [])
        c0 = verify.mk_circuit(ex, st0, "c0")
        g0 = st0.g(c0)
        st0.pc.append(spec.typed(ctx, g0))
        st0.pc.append(spec.wired_edges(ctx, g0))
        bind = {"c0": c0}
        if variant.startswith("self"):
            bind["c1"] = NONE
            c1, g1 = c0, g0
        else:
            c1 = verify.mk_circuit(ex, st0, "c1")
            g1 = st0.g(c1)
            st0.pc.append(spec.typed(ctx, g1))
            st0.pc.append(spec.wired_edges(ctx, g1))
            x = ctx.fresh_name("ne")
            st0.pc.append(z3.Exists([x], g1.node(x)))  # a circuit without nodes is falsy and means "self" (domain note, DESIGN 9)
            bind["c1"] = c1
        H["g0"], H["g1"] = g0, g1
        import ast as _ast
        ex.cuts = {}
        for n_ in _ast.walk(fn):
            if isinstance(n_, _ast.Expr) and isinstance(n_.value, _ast.Call) and getattr(n_.value.func, "attr", "") in ("add_subcircuit", "add"):
                ex.cuts[n_.end_lineno] = lambda ex_, st_: [("typed", spec.typed(ctx, st_.g(st_.env["m"])))]
        # cut points at the top-level phases of the function: the state reached is re-stated in the vocabulary of the
        # postcondition (over the startpoints tied / endpoints compared so far) and the definitions of the
        # intermediate graphs are forgotten, which keeps every later VC small (and its solving time stable)
        FORGET = ("N!", "FI!", "hasty!", "hasout!", "ty!", "out!", "bbdom!", "bbval!", "hv_")
        EMPTY = Coll(lambda t: z3.BoolVal(False))

        def phase_cut(tied, compared, with_sat):
            def cut(ex_, st_):
                gm_ = st_.g(st_.env["m"])
                S_ = tied(st_)
                posts_ = structure_posts(ctx, gm_, H["g0"], H["g1"], S_, compared(st_), with_sat=with_sat)
                facts = [("phase:" + k, f) for k, f in posts_.items()]
                facts.append(("phase:typed", spec.typed(ctx, gm_)))
                facts.append(("phase:graph-invariant", gm_.wf(ctx)))
                return {"forget": FORGET, "facts": facts}
            return cut
        top = [n_ for n_ in fn.body]
        subs = [n_ for n_ in top if isinstance(n_, _ast.Expr) and isinstance(n_.value, _ast.Call) and getattr(n_.value.func, "attr", "") == "add_subcircuit"]
        fors = [n_ for n_ in top if isinstance(n_, _ast.For)]
        adds = [n_ for n_ in top if isinstance(n_, _ast.Expr) and isinstance(n_.value, _ast.Call) and getattr(n_.value.func, "attr", "") == "add"]
        if len(subs) == 2 and len(fors) == 2 and len(adds) == 1:
            ex.cuts[("node", id(subs[1]))] = phase_cut(lambda st_: EMPTY, lambda st_: EMPTY, False)
            ex.cuts[("node", id(fors[0]))] = phase_cut(lambda st_: H["S_eff"](), lambda st_: EMPTY, False)
            ex.cuts[("node", id(adds[0]))] = phase_cut(lambda st_: H["S_eff"](), lambda st_: EMPTY, True)
        if variant.endswith("explicit"):
            S = verify.mk_names(ex, "startpoints", is_list=False)
            Eps = verify.mk_names(ex, "endpoints", is_list=False)
            x = ctx.fresh_name("nx")
            st0.pc.append(z3.Exists([x], S.mem(x)))
            st0.pc.append(z3.Exists([x], Eps.mem(x)))
            # domain of the property: tied startpoints are startpoints of both circuits, compared endpoints nodes of both
            isp = lambda g, n: z3.And(g.node(n), z3.Or(z3.Select(g.ty, n) == T["input"], z3.Select(g.ty, n) == T["bb_output"]))
            st0.pc.append(z3.ForAll([x], z3.Implies(S.mem(x), z3.And(isp(g0, x), isp(g1, x)))))
            st0.pc.append(z3.ForAll([x], z3.Implies(Eps.mem(x), z3.And(g0.node(x), g1.node(x)))))
            bind["startpoints"], bind["endpoints"] = S, Eps
        else:
            bind["startpoints"], bind["endpoints"] = NONE, NONE
        def eff():
            if variant.endswith("explicit"):
                return bind["startpoints"], bind["endpoints"]
            if "eff" not in H:
                # the effective sets of the property statement, as named sets with their definitions as hypotheses
                # (an opaque name keeps the VCs small: the definition is unfolded only where a proof needs it)
                sp = lambda g, n: z3.And(g.node(n), z3.Or(z3.Select(g.ty, n) == T["input"], z3.Select(g.ty, n) == T["bb_output"]))
                ep = lambda g, n: z3.And(g.node(n), z3.Or(z3.And(z3.Select(g.hasout, n), z3.Select(g.out, n)), z3.Select(g.ty, n) == T["bb_input"]))
                sa, ea = ctx.arr_nb("tied_startpoints"), ctx.arr_nb("compared_endpoints")
                q = ctx.fresh_name("q")
                st0.pc.append(z3.ForAll([q], z3.Select(sa, q) == z3.And(sp(g0, q), sp(g1, q))))
                st0.pc.append(z3.ForAll([q], z3.Select(ea, q) == z3.And(ep(g0, q), ep(g1, q))))
                H["eff"] = (Coll.from_array(sa), Coll.from_array(ea))
            return H["eff"]
        H["S_eff"] = lambda: eff()[0]
        eff()
        outs = verify.bind_and_run(ex, fn, st0, bind)
        n_ret = 0
        for o in outs:
            i = o.st.pathid()
            if o.kind == "raise":
                ctx.oblige(f"miter[{variant}]/post-exc#{i}:only-ValueError-or-lookup", o.st.pc, z3.BoolVal(o.exc in ("ValueError", "KeyError")), "post-exc")
                ctx.oblige(f"miter[{variant}]/frame-exc#{i}:arguments-untouched", o.st.pc, verify.heap_eq(ex, o.st.heap, st0.heap, list(st0.heap)), "frame")
                continue
            n_ret += 1
            m = o.value
            gm = o.st.g(m)
            sat = ctx.name_lit("sat")
            c0p, c1p, difp, undif = H["c0p"], H["c1p"], H["difp"], H["undif"]
            unc0, unc1 = ctx.template_inverse[("c0_", "")], ctx.template_inverse[("c1_", "")]
            # effective tied startpoints / compared endpoints, from the property statement
            S_eff, E_eff = eff()
            posts = structure_posts(ctx, gm, g0, g1, S_eff, E_eff)
            posts["arguments-untouched"] = verify.heap_eq(ex, o.st.heap, st0.heap, list(st0.heap))
            posts["result-is-a-new-object"] = z3.BoolVal(o.st.goid(m) not in st0.heap and o.st.heap[m.oid].bbs not in st0.heap)
            for k, f in posts.items():
                ctx.oblige(f"miter[{variant}]/post#{i}:{k}", o.st.pc, f, "post")
        ctx.oblige(f"miter[{variant}]/cover:returns-on-some-path", [], z3.BoolVal(n_ret > 0), "cover")
        return info
    return run


TASKS = {
    "C04/miter[self,default]": structure_task("self,default"),
    "C04/miter[pair,default]": structure_task("pair,default"),
    "C04/miter[pair,explicit]": structure_task("pair,explicit"),
}


def encoding_lemma(ctx):
    """For every valuation v consistent with a graph of the proved shape:
         v(sat)  <=>  some compared endpoint e has v(c0_e) != v(c1_e),
       every tied startpoint s has v(c0_s) == v(s) == v(c1_s), and an untied copy input is a free signal.
       (xor gates with exactly two drivers a,b: v = v(a) xor v(b);  or: exists driver;  buf: the single driver.)"""
    from pyvc.engine import Graph
    T = ctx.tval
    gm, g0, g1 = Graph.fresh(ctx, "m"), Graph.fresh(ctx, "c0"), Graph.fresh(ctx, "c1")
    S = Coll.from_array(ctx.arr_nb("S"))
    E = Coll.from_array(ctx.arr_nb("E"))
    c0p, c1p, difp, unc0, unc1, undif = prefix_fns(ctx)
    sat = ctx.name_lit("sat")
    hyps = list(structure_posts(ctx, gm, g0, g1, S, E).values())
    x, a, b = ctx.fresh_name("x"), ctx.fresh_name("a"), ctx.fresh_name("b")
    hyps.append(z3.Exists([x], E.mem(x)))
    hyps.append(z3.ForAll([x], z3.Implies(E.mem(x), z3.And(g0.node(x), g1.node(x)))))
    hyps.append(z3.ForAll([x], z3.Implies(S.mem(x), z3.And(g0.node(x), g1.node(x), z3.Select(g0.ty, x) != T["bb_output"], z3.Select(g1.ty, x) != T["bb_output"]))))
    v = ctx.fresh("v", z3.ArraySort(ctx.Name, z3.BoolSort()))
    val = lambda n: z3.Select(v, n)
    ty = lambda n: z3.Select(gm.ty, n)
    # gateok at the nodes the lemma needs (reveal gateok at named nodes only, DESIGN 3.7)
    q = ctx.fresh_name("q")
    xor2 = z3.ForAll([x, a, b], z3.Implies(
        z3.And(gm.node(x), ty(x) == T["xor"], a != b, z3.ForAll([q], gm.edge(q, x) == z3.Or(q == a, q == b))),
        val(x) == z3.Xor(val(a), val(b))))
    or_ok = z3.ForAll([x], z3.Implies(z3.And(gm.node(x), ty(x) == T["or"]), val(x) == z3.Exists([q], z3.And(gm.edge(q, x), val(q)))))
    buf_ok = z3.ForAll([x, a], z3.Implies(z3.And(gm.node(x), ty(x) == T["buf"], gm.edge(a, x)), val(x) == val(a)))
    hyps += [xor2, or_ok, buf_ok]
    e = ctx.fresh_name("e")
    differs = z3.Exists([e], z3.And(E.mem(e), val(c0p(e)) != val(c1p(e))))
    ctx.oblige("miter/lemma:each-dif-node-is-the-xor-of-the-two-copies", hyps,
               z3.ForAll([e], z3.Implies(E.mem(e), val(difp(e)) == z3.Xor(val(c0p(e)), val(c1p(e))))), "lemma")
    dif_ok = z3.ForAll([e], z3.Implies(E.mem(e), val(difp(e)) == z3.Xor(val(c0p(e)), val(c1p(e)))))
    ctx.oblige("miter/lemma:sat=>some-endpoint-differs", hyps + [dif_ok], z3.Implies(val(sat), differs), "lemma")
    ctx.oblige("miter/lemma:some-endpoint-differs=>sat", hyps + [dif_ok], z3.Implies(differs, val(sat)), "lemma")
    tied = lambda x_: z3.And(S.mem(x_), z3.Select(g0.ty, x_) == T["input"], z3.Select(g1.ty, x_) == T["input"])
    wiring = z3.ForAll([x], z3.Implies(tied(x), z3.And(gm.edge(x, c0p(x)), gm.node(c0p(x)), ty(c0p(x)) == T["buf"],
                                                      gm.edge(x, c1p(x)), gm.node(c1p(x)), ty(c1p(x)) == T["buf"])))
    ctx.oblige("miter/lemma:tied-startpoints-are-wired-to-both-copy-buffers", hyps, wiring, "lemma")
    ctx.oblige("miter/lemma:tied-startpoints-drive-both-copies", hyps + [wiring],
               z3.ForAll([x], z3.Implies(tied(x), z3.And(val(c0p(x)) == val(x), val(c1p(x)) == val(x)))), "lemma")
    nofi0 = z3.ForAll([x, a], z3.Implies(z3.And(g0.node(x), z3.Select(g0.ty, x) == T["input"]), z3.Not(g0.edge(a, x))))
    ctx.oblige("miter/lemma:untied-copy-inputs-are-undriven-buffers(free)", hyps + [nofi0],
               z3.ForAll([x, a], z3.Implies(z3.And(g0.node(x), z3.Select(g0.ty, x) == T["input"], z3.Not(S.mem(x))),
                                            z3.And(ty(c0p(x)) == T["buf"], z3.Not(gm.edge(a, c0p(x)))))), "lemma")
    # vacuity: the hypotheses are satisfiable (checked over a finite universe by the cover obligation)
    ctx.oblige("miter/lemma:cover:hypotheses-consistent", hyps, z3.BoolVal(False), "cover-sat")
    return {"function": "circuitgraph/tx.py::miter", "sha256": engine.find_function(F, "miter")[2], "variants": ["encoding lemma over the proved structure"],
            "kind": "lemma over the contract"}


TASKS["C04/miter-encoding-lemma"] = encoding_lemma
