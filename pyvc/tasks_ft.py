"""Circuit.filter_type: body == contract for literal type arguments (str, list of literals, unsupported literal)."""
from contracts import layer1
from pyvc import engine, verify
from pyvc.engine import State, StrLit
from pyvc.exec import StrSet
from pyvc.tasks_layer1 import _orig_ex

F = layer1.F
VARIANTS = {
    "'input'": lambda: StrLit("input"),
    "'bb_output'": lambda: StrLit("bb_output"),
    "['and','nand']": lambda: StrSet(["and", "nand"]),
    "['input','bb_input','0','1','x']": lambda: StrSet(["input", "bb_input", "0", "1", "x"]),
    "[]": lambda: StrSet([]),
    "['and','gate'] (unsupported member)": lambda: StrSet(["and", "gate"]),
}


def filter_type_task(ctx):
    qual = "Circuit.filter_type"
    fn, seg, sha = engine.find_function(F, qual)
    info = {"function": f"{F}::{qual}", "sha256": sha, "lines": engine.abs_lines(fn), "variants": []}
    for vname, mk in VARIANTS.items():
        label = f"{qual}[{vname}]"
        ex = _orig_ex(ctx, label, {})
        ex.summaries = {k: v for k, v in ex.summaries.items() if k != qual}
        st0 = State({}, {}, [])
        me = verify.mk_circuit(ex, st0, "self")
        body = verify.bind_and_run(ex, fn, st0, {"self": me, "types": mk()})
        specs = verify.run_summary(ex, layer1.SUMMARIES[qual], st0, me, [mk()], {})
        verify.refine_vcs(ex, label, st0, body, specs)
        info["variants"].append(vname)
    return info


TASKS = {"layer1/Circuit.filter_type": filter_type_task}


# `n in circuit`: the executor reads it as node membership directly (Exec.member); this task checks that reading on the body.
from pyvc.tasks_layer1 import refine_task  # noqa: E402
TASKS["layer1/Circuit.__contains__"] = refine_task("Circuit.__contains__", {"str": ["str"]}, ["n"])
