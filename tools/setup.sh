#!/bin/sh
# offline setup: nothing to build; verify the tooling the checks rely on is importable
set -e
cd "$(dirname "$0")/.."
python3-vt -c "import z3, networkx, lark, sys; sys.path[:0]=['/repo']; import circuitgraph"
which z3 cvc5 z3-new >/dev/null
echo setup ok
