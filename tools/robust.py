"""Robustness probe for proof obligations:  python3-vt tools/robust.py [task-prefix ...]
Every obligation of the selected tasks is solved under several z3 random seeds with the plain 10 s budget (no
retries, no portfolio); obligations that are not discharged under every seed, or that need more than 3 s, are listed.
A fragile obligation is a candidate for a cut point / helper conjunct (DESIGN 12.2: slow queries are the unstable ones)."""
import multiprocessing as mp
import os
import sys
import time

sys.path.insert(0, os.path.dirname(os.path.dirname(os.path.abspath(__file__))))
SEEDS = [int(s) for s in os.environ.get("ROBUST_SEEDS", "0,7,23,101").split(",")]
TMO = int(os.environ.get("ROBUST_TMO_MS", "10000"))


def probe(name):
    import z3
    from pyvc import main, verify
    from pyvc.engine import Ctx
    ctx = Ctx()
    t0 = time.time()
    try:
        main.all_tasks()[name](ctx)
    except Exception as e:  # noqa
        return name, [("GENERATION FAILED: " + repr(e), [])], 0, 0.0
    gen = time.time() - t0
    bad = []
    for ob in ctx.obligations:
        if ob["kind"] in ("frame-abs", "cover-sat", "strfact"):
            continue
        res = []
        for seed in SEEDS:
            t1 = time.time()
            r = "unsat"
            for part in verify.goal_parts(ob["goal"]):
                s = z3.Solver()
                s.set("random_seed", seed)
                s.add(ctx.axioms)
                s.add([z3.simplify(h) for h in ob["hyps"]] if os.environ.get("PYVC_SIMPLIFY") else ob["hyps"])
                s.add(z3.Not(part))
                r = str(verify.hard_check(s, TMO))
                if r != "unsat":
                    break
            res.append((r, round(time.time() - t1, 2)))
        if any(r != "unsat" or t > 3 for r, t in res):
            bad.append((ob["id"], res))
    return name, bad, len(ctx.obligations), gen


def main_():
    from pyvc import main
    prefs = sys.argv[1:]
    names = [n for n in sorted(main.all_tasks()) if (not prefs or any(n.startswith(p) for p in prefs)) and not n.startswith("C19/frame")]
    with mp.Pool(int(os.environ.get("ROBUST_PROCS", "8"))) as pool:
        for name, bad, n, gen in pool.imap_unordered(probe, names):
            print(f"== {name}: {n} obligations, gen {gen:.1f}s, fragile: {len(bad)}", flush=True)
            for oid, res in bad:
                print("    ", oid, res, flush=True)


if __name__ == "__main__":
    main_()
