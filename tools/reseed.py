#!/usr/bin/env python3
"""tools/reseed.py [seed-dir-names...] : re-run the quick checks against every stored seeded change
(in a scratch worktree of /repo HEAD with the patch applied; /repo itself is untouched) and update meta.json."""
import json, os, subprocess, sys, tempfile, shutil
VERIF = os.path.dirname(os.path.dirname(os.path.abspath(__file__)))
def sh(cmd, cwd=None, env=None):
    p = subprocess.run(cmd, shell=True, cwd=cwd, env=env, stdout=subprocess.PIPE, stderr=subprocess.STDOUT, text=True)
    return p.returncode, p.stdout
names = sys.argv[1:] or sorted(os.listdir(os.path.join(VERIF, "seeded")))
tier = os.environ.get("TIER", "quick")
rows = []
for nm in names:
    d = os.path.join(VERIF, "seeded", nm)
    meta = json.load(open(os.path.join(d, "meta.json")))
    props = list(meta.get("detected_by_quick_checks", {meta["property"]: 0}).keys())
    wt = tempfile.mkdtemp(prefix="reseed_", dir="/tmp"); os.rmdir(wt)
    try:
        rc, out = sh(f"git -C /repo worktree add -q --detach {wt} HEAD"); assert rc == 0, out
        rc, out = sh(f"git apply {d}/patch.diff", cwd=wt)
        if rc != 0:
            rows.append((nm, "PATCH-DOES-NOT-APPLY")); continue
        det = {}
        for p in props:
            rc, out = sh(f"./check {p} --tier {tier}", cwd=VERIF, env=dict(os.environ, VERIF_REPO=wt))
            vio = [l[:300] for l in out.splitlines() if l.startswith("VIOLATION")]
            prf = [l[:260] for l in out.splitlines() if l.startswith(("FAILED-OBLIGATION", "UNDECIDED property")) or "no-failing-input-found" in l]
            det[p] = {"exit": rc, "violations": vio[:3], "proof_part": prf[:3]}
        meta["detected_by_quick_checks" if tier == "quick" else "detected_by_thorough_checks"] = det
        json.dump(meta, open(os.path.join(d, "meta.json"), "w"), indent=1)
        rows.append((nm, " ".join(f"{p}:{'DETECTED' if v['exit']==1 else 'exit'+str(v['exit'])}" for p, v in det.items())))
    finally:
        sh(f"git -C /repo worktree remove --force {wt}"); shutil.rmtree(wt, ignore_errors=True)
for r in rows: print(*r)
