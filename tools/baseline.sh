#!/bin/sh
# runs the repository's pinned baseline (guard off) and prints pass/fail counts of the 42 stable tests
cd /repo && /venv/bin/python -m pytest -q -p no:cacheprovider --timeout=900 --continue-on-collection-errors 2>&1 | tail -4
