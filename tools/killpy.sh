#!/bin/sh
# kill stray python3-vt worker processes of this framework (pattern passed as $1), never the calling shell
for pid in $(ps -eo pid,comm,args | awk -v pat="$1" '$2 ~ /^python/ && index($0, pat) {print $1}'); do kill "$pid" 2>/dev/null; done
sleep 1
ps -eo pid,comm,args | awk -v pat="$1" '$2 ~ /^python/ && index($0, pat)' | wc -l
