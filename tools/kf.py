#!/usr/bin/env python3
"""tools/kf.py fixed <prop> <what>   -- records the latest /repo commit as a repair (suppresses nothing)
   tools/kf.py finding <prop> <kind> <what>  -- records a known finding keyed by (property, kind)"""
import json, subprocess, sys, os
p = os.path.join(os.path.dirname(os.path.dirname(os.path.abspath(__file__))), "known_findings.json")
k = json.load(open(p))
if sys.argv[1] == "fixed":
    sha, subj = subprocess.check_output(["git", "-C", "/repo", "log", "-1", "--format=%h\t%s"], text=True).strip().split("\t")
    k["fixed"].append({"property": sys.argv[2], "commit": f"{sha} {subj}", "what": sys.argv[3]})
else:
    k["findings"].append({"property": sys.argv[2], "kind": sys.argv[3], "what": sys.argv[4]})
json.dump(k, open(p, "w"), indent=1)
