#!/bin/sh
# tools/seedtest.sh <patch.diff> <PROP> [PROP...] : apply a seeded change to /repo, run the quick checks, undo it
P="$1"; shift
cd /repo && git apply "$P" || { echo "PATCH DOES NOT APPLY"; exit 9; }
cd /verif
for prop in "$@"; do ./check "$prop" --tier "${TIER:-quick}" 2>&1 | cut -c1-260 | tail -4; echo "exit=$?"; done
cd /repo && git checkout -- . && git status --short | head -3
