#!/usr/bin/env python3
"""tools/keepseed.py <PROP> <label> <patch.diff> <demo.py> "<needs>" [check props...]

Confirms a seeded property-breaking change in a scratch worktree of /repo HEAD:
  (1) patch applies; (2) pinned baseline unchanged (27 failed, 42 passed, same passing ids);
  (3) demo exits non-zero with the change and 0 without it;
then runs the named quick checks against /repo with the patch applied (and undoes it) and stores
/verif/seeded/<PROP>-<label>/{patch.diff, demo.py, meta.json}.  The worktree is removed."""
import json
import os
import re
import shutil
import subprocess
import sys
import tempfile

VERIF = os.path.dirname(os.path.dirname(os.path.abspath(__file__)))


def sh(cmd, cwd=None, env=None, timeout=1800):
    p = subprocess.run(cmd, shell=True, cwd=cwd, env=env, stdout=subprocess.PIPE, stderr=subprocess.STDOUT, text=True, timeout=timeout)
    return p.returncode, p.stdout


def passing_ids(wt):
    rc, out = sh("/venv/bin/python -m pytest -q -p no:cacheprovider --timeout=900 -rA 2>&1 | grep -E '^(PASSED|FAILED|ERROR)' | sort", cwd=wt)
    passed = sorted(l.split()[1] for l in out.splitlines() if l.startswith("PASSED"))
    return passed


def main():
    prop, label, patch, demo, needs = sys.argv[1:6]
    checks = sys.argv[6:] or [prop]
    wt = tempfile.mkdtemp(prefix="seedvfy_", dir="/tmp")
    os.rmdir(wt)
    meta = {"property": prop, "label": label, "needs_to_manifest": needs, "ran": []}
    try:
        rc, out = sh(f"git -C /repo worktree add -q --detach {wt} HEAD")
        assert rc == 0, out
        base = passing_ids(wt)
        env = dict(os.environ, PYTHONPATH=f"{wt}:/opt/cgtools/pysat_shim", PYTHONDONTWRITEBYTECODE="1")
        rc0, o0 = sh(f"/venv/bin/python {demo}", cwd="/tmp", env=env)
        rc, out = sh(f"git apply {patch}", cwd=wt)
        assert rc == 0, "patch does not apply: " + out
        mut = passing_ids(wt)
        rc1, o1 = sh(f"/venv/bin/python {demo}", cwd="/tmp", env=env)
        meta["ran"].append({"cmd": "pinned suite on clean worktree / with change", "passed_clean": len(base), "passed_with_change": len(mut), "same_passing_ids": base == mut})
        meta["ran"].append({"cmd": f"demo on clean worktree", "exit": rc0})
        meta["ran"].append({"cmd": f"demo with change", "exit": rc1, "tail": o1[-400:]})
        ok = base == mut and len(base) >= 42 and rc0 == 0 and rc1 != 0
        meta["confirmed"] = ok
        # run our quick checks against the worktree WITH the change (VERIF_REPO points the checks at it; /repo untouched)
        det = {}
        env2 = dict(os.environ, VERIF_REPO=wt)
        for p in checks:
            rc, out = sh(f"./check {p} --tier quick", cwd=VERIF, env=env2)
            vio = [l[:300] for l in out.splitlines() if l.startswith("VIOLATION")]
            prf = [l[:260] for l in out.splitlines() if l.startswith(("FAILED-OBLIGATION", "UNDECIDED property")) or "no-failing-input-found" in l]
            det[p] = {"exit": rc, "violations": vio[:3], "proof_part": prf[:3]}
    finally:
        sh(f"git -C /repo worktree remove --force {wt}")
        shutil.rmtree(wt, ignore_errors=True)
    meta["detected_by_quick_checks"] = det
    d = os.path.join(VERIF, "seeded", f"{prop}-{label}")
    os.makedirs(d, exist_ok=True)
    shutil.copy(patch, os.path.join(d, "patch.diff"))
    shutil.copy(demo, os.path.join(d, "demo.py"))
    json.dump(meta, open(os.path.join(d, "meta.json"), "w"), indent=1)
    print(json.dumps({"confirmed": meta.get("confirmed"), "detected": {k: v["exit"] for k, v in det.items()}, "ran": meta["ran"]}, indent=1)[:1500])


main()
