#!/usr/bin/env python3
"""Regenerates /verif/MANIFEST.json from registry.py (single source of truth) and validates it."""
import json, os, sys
HERE = os.path.dirname(os.path.dirname(os.path.abspath(__file__)))
sys.path.insert(0, HERE)
from registry import CHECKS, NOT_APPLICABLE, TECHNIQUE  # noqa

props = [json.loads(l)["id"] for l in open(os.path.join(HERE, "properties.jsonl"))]
checks = []
for p in props:
    if p not in CHECKS:
        continue
    c = CHECKS[p]
    checks.append({
        "property_id": p,
        "quick_cmd": f"./check {p} --tier quick",
        "thorough_cmd": f"./check {p} --tier thorough",
        "evidence_file": f"evidence/{p}.json",
        "replay_cmd_template": "./check replay {path}",
        "engine": "pyvc+bounded" if c["proof"] else "bounded",
        "level_claimed": {"category": c["level"], "text": c["level_text"], "design_ref": c.get("design_ref", f"DESIGN.md section 8 {p}")},
        "level_note": c["level_note"],
        "technique": c.get("technique", TECHNIQUE["proof" if c["proof"] else "bounded"]),
    })
na = [{"property_id": p, "reason": NOT_APPLICABLE.get(p, "check not built yet in this session (work in progress); see DESIGN.md section 8")} for p in props if p not in CHECKS]
man = {
    "version": 1,
    "setup_cmd": "./tools/setup.sh",
    "hooks": {"guard": "CIRCUITGRAPH_VERIF", "enable": "no hooks: contracts are sidecar files under /verif/contracts; checks read /repo's working tree as is",
              "baseline_off_cmd": "cd /repo && /venv/bin/python -m pytest -ra -q -p no:cacheprovider --timeout=900 --continue-on-collection-errors",
              "source_commits": [], "add_only": True},
    "engines": [
        {"name": "pyvc", "path": "pyvc/", "serves_properties": [p for p in props if p in CHECKS and CHECKS[p]["proof"]],
         "kind_free_text": "contract-based deductive verifier built here: sidecar contracts + VC generation from the real functions' ASTs (re-read from /repo each run) + z3/cvc5"},
        {"name": "bounded", "path": "bounded/", "serves_properties": [p for p in props if p in CHECKS and CHECKS[p].get("bounded", True)],
         "kind_free_text": "bounded stand-in: the same contracts evaluated on the real functions over a stated finite scope, all under several PYTHONHASHSEEDs; also counterexample finder and replay harness"},
    ],
    "checks": checks,
    "not_applicable": na,
    "notes": "Exit codes: 0 held, 1 violation (VIOLATION line + replay file), 2 undecided, 3 engine failure. known_findings.json lists genuine defects recorded (KNOWN-FINDING lines) or repaired (fix: commits in /repo).",
}
if not na:
    del man["not_applicable"]
json.dump(man, open(os.path.join(HERE, "MANIFEST.json"), "w"), indent=1)
try:
    import jsonschema
    jsonschema.validate(man, json.load(open("/root/.vp/MANIFEST.schema.json")))
    print("MANIFEST.json valid;", len(checks), "checks,", len(na), "not_applicable")
except ImportError:
    print("written (jsonschema unavailable)")
