#!/usr/bin/env python3
"""prints the markdown table of seeded changes and which quick checks caught them (from seeded/*/meta.json)"""
import json, os
d = os.path.join(os.path.dirname(os.path.dirname(os.path.abspath(__file__))), "seeded")
print("| seed | breaks | needs, to manifest | detected by (quick tier) |")
print("|---|---|---|---|")
for nm in sorted(os.listdir(d)):
    m = json.load(open(os.path.join(d, nm, "meta.json")))
    det = m.get("detected_by_quick_checks", {})
    cell = []
    for p, v in det.items():
        if v["exit"] == 1:
            kinds = sorted({x.split("kind=")[1].split(" ")[0] for x in v["violations"] if "kind=" in x})
            obl = [x for x in v["violations"] + v.get("proof_part", []) if "no-failing-input-found" in x or x.startswith("FAILED-OBLIGATION")]
            how = []
            if kinds:
                how.append("failing input: " + ", ".join(kinds)[:80])
            if obl:
                how.append("failed obligation: " + obl[0].split("obligation=")[1].split(" ")[0][:70])
            cell.append(f"{p}: VIOLATION ({'; '.join(how)})")
        else:
            cell.append(f"{p}: not detected (exit {v['exit']})")
    print(f"| {nm} | {m['property']} | {m['needs_to_manifest'][:150]} | {'; '.join(cell)} |")
