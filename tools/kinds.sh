#!/bin/sh
# tools/kinds.sh <PROP> [tier] : distinct failure kinds of the bounded module (debug aid)
cd /verif && PYTHONPATH=/verif/shim:/repo:/verif PYTHONHASHSEED=${HS:-1} python3-vt -m vlib.runner "$1" --tier "${2:-quick}" --out /tmp/kinds.json && python3 -c "
import json,collections
r=json.load(open('/tmp/kinds.json'))
c=collections.Counter(f['kind'] for f in r['failures'])
print('evals',r['evaluations'],'errors',len(r['errors']))
for k,v in c.most_common(): 
    ex=[f for f in r['failures'] if f['kind']==k][0]
    print(v,k,'::',ex['msg'][:230])
for e in r['errors'][:2]: print(e['trace'][-600:])
"
