"""C04: tx.miter -- structural postcondition proved on the real body (against the layer-1/2 contracts), and the
encoding lemma (sat <=> some compared endpoint differs) proved over that structure."""
