"""Layer 2 contracts: Circuit.copy, Circuit.add_subcircuit, Circuit.add_blackbox.

add_subcircuit: the body (dict-building loop, nx.relabel_nodes, DiGraph.update, strip loops, registry loop,
try/except rollback) is verified against the contract below in pyvc/tasks_l2.py for calls with no connection or one
connection (symbolic or literal instance name, strip_io True/False).  For calls with two or more connections the
contract is ASSUMED (recorded through models.used); the same clauses are what the bounded check C06 compares the
real function with.
add_blackbox: body verified against the contract for calls without connections (pyvc/tasks_l2.py)."""
import z3

from pyvc.engine import NONE, BBDict, CircuitRec, DictV, Graph, NameV, ObjRef, StrLit, Unsupported, alloc
from pyvc.exec import Coll, _Split
from pyvc import models
from contracts import layer1

ASSUMED = ["Circuit.add_subcircuit (contract assumed; bounded-checked by C06)"]


def s_copy(ex, st, recv, args, kw, e):
    rec = st.heap[recv.oid]
    g, bb = st.g(recv), st.bb(recv)
    goid = alloc(st, g.copy(), "graph")
    boid = alloc(st, BBDict(bb.dom, bb.val), "bbdict")
    return ObjRef(alloc(st, CircuitRec(goid, boid, rec.name), "circuit"), "Circuit")


def prefix_fn(ex, name):
    """n |-> f"{name}_{n}" and its inverse"""
    ctx = ex.ctx
    if isinstance(name, StrLit):
        # a literal instance name is part of the template text, exactly as in an f-string like f"c0_{n}"
        parts = (name.s + "_", "")
        f = ctx.template(parts)
        inv = ctx.template_inverse[parts]
        return (lambda n: f(n)), (lambda x: inv(x))
    parts = ("", "_", "")
    f = ctx.template(parts)
    inv = ctx.template_inverse[parts]
    nm = ex.name_term(name)
    return (lambda n: f(nm, n)), (lambda x: inv(nm, x))


def s_add_subcircuit(ex, st, recv, args, kw, e):
    ctx = ex.ctx
    names = ["sc", "name", "connections", "strip_io"]
    a = dict(zip(names, args))
    a.update(kw)
    sc, name = a["sc"], a["name"]
    conns = a.get("connections", NONE)
    strip = a.get("strip_io", True)
    if not isinstance(strip, bool):
        raise Unsupported("symbolic strip_io")
    pre, unpre = prefix_fn(ex, name)
    g, bb = st.g(recv), st.bb(recv)
    gs, bs = st.g(sc), st.bb(sc)
    T = ctx.tval
    x, y = ctx.fresh_name("sx"), ctx.fresh_name("sy")
    ex.split_raise(st, z3.Exists([x], z3.And(z3.Select(bs.dom, x), z3.Select(bb.dom, pre(x)))), "ValueError")
    ex.split_raise(st, z3.Exists([x], z3.And(gs.node(x), g.node(pre(x)))), "ValueError")
    # sc.inputs() needs every node of sc typed
    ex.split_raise(st, z3.Exists([x], z3.And(gs.node(x), z3.Not(z3.Select(gs.hasty, x)))), "KeyError")
    is_in = lambda n: z3.And(gs.node(n), z3.Select(gs.ty, n) == T["input"])
    is_out = lambda n: z3.And(gs.node(n), z3.Select(gs.hasout, n), z3.Select(gs.out, n))
    items = []
    if isinstance(conns, DictV):
        if conns.items is None:
            raise Unsupported("add_subcircuit with a symbolic connection dict (variant not under contract)")
        items = conns.items
        if len(items) >= 2:
            models.used("Circuit.add_subcircuit with >= 2 connections [ASSUMED contract; body proved for 0 and 1 connection]")
        for k, _ in items:
            ex.split_raise(st, z3.Not(z3.Or(is_in(k), is_out(k))), "ValueError")
    img = lambda t: z3.And(t == pre(unpre(t)), gs.node(unpre(t)))  # t is the copy of a node of sc
    N = models.define_set(ex, st, lambda t: z3.Or(g.node(t), img(t)), "N")
    FI = models.define_fi(ex, st, lambda u, v: z3.Or(g.edge(u, v), z3.And(img(u), img(v), gs.edge(unpre(u), unpre(v)))))
    hasty = models.define_set(ex, st, lambda t: z3.If(img(t), z3.Select(gs.hasty, unpre(t)), z3.Select(g.hasty, t)), "hasty")
    hasout = models.define_set(ex, st, lambda t: z3.If(img(t), z3.Select(gs.hasout, unpre(t)), z3.Select(g.hasout, t)), "hasout")
    ty = ctx.fresh("ty", g.ty.sort())
    out = ctx.fresh("out", g.out.sort())
    t_ = ctx.fresh_name("dt")
    ty_sc = lambda n: z3.If(z3.And(z3.BoolVal(strip), z3.Select(gs.ty, n) == T["input"]), T["buf"], z3.Select(gs.ty, n))
    out_sc = lambda n: z3.And(z3.Select(gs.out, n), z3.BoolVal(not strip))
    for ax in (z3.ForAll([t_], z3.Select(ty, t_) == z3.If(img(t_), ty_sc(unpre(t_)), z3.Select(g.ty, t_))),
               z3.ForAll([t_], z3.Select(out, t_) == z3.If(img(t_), out_sc(unpre(t_)), z3.Select(g.out, t_)))):
        ctx.def_ids.add(ax.get_id())
        st.pc.append(ax)
    st.set_g(recv, Graph(N, hasty, ty, hasout, out, FI))
    bimg = lambda t: z3.And(t == pre(unpre(t)), z3.Select(bs.dom, unpre(t)))
    bdom = models.define_set(ex, st, lambda t: z3.Or(z3.Select(bb.dom, t), bimg(t)), "bbdom")
    bval = ctx.fresh("bbval", bb.val.sort())
    ax = z3.ForAll([t_], z3.Select(bval, t_) == z3.If(bimg(t_), z3.Select(bs.val, unpre(t_)), z3.Select(bb.val, t_)))
    ctx.def_ids.add(ax.get_id())
    st.pc.append(ax)
    st.set_bb(recv, BBDict(bdom, bval))
    try:
        for k, ns in items:
            if ex.choice(st, is_in(k)):
                layer1.s_connect(ex, st, recv, [ns, NameV(pre(k))], {}, e)
            else:
                layer1.s_connect(ex, st, recv, [NameV(pre(k)), ns], {}, e)
    except _Split as sp:
        sp.st.set_g(recv, g)     # all-or-nothing: the spliced copy is removed again
        sp.st.set_bb(recv, bb)
        raise
    return NONE


def pin_fn(ex, name):
    """n |-> f"{name}.{n}" (the 2-hole template also used by the registry clause of `wired`)"""
    f = ex.ctx.template(("", ".", ""))
    nm = ex.name_term(name)
    return lambda n: f(nm, n)


def s_add_blackbox(ex, st, recv, args, kw, e):
    """add_blackbox(blackbox, name) without connections: all-or-nothing.
    ValueError iff the instance name is taken, a pin node name is taken, a pin name is both an input and an output
    of the blackbox (the second `add` is rejected), or a pin node name is rejected by `add` (empty / leading digit).
    Otherwise: one node name.pin per pin, typed bb_input / bb_output, not an output, no edges; registry[name] = blackbox."""
    ctx = ex.ctx
    a = dict(zip(["blackbox", "name", "connections"], args))
    a.update(kw)
    b, name = a["blackbox"], a["name"]
    conns = a.get("connections", NONE)
    if conns is not NONE:
        raise Unsupported("add_blackbox with connections (variant not under contract)")
    T = ctx.tval
    g, bb = st.g(recv), st.bb(recv)
    pin = pin_fn(ex, name)
    nm = ex.name_term(name)
    x = ctx.fresh_name("bx")
    i_ = lambda n: ctx.bb_in(b.term, n)
    o_ = lambda n: ctx.bb_out(b.term, n)
    io = lambda n: z3.Or(i_(n), o_(n))
    ex.split_raise(st, z3.Select(bb.dom, nm), "ValueError")
    ex.split_raise(st, z3.Exists([x], z3.And(io(x), g.node(pin(x)))), "ValueError")
    ex.split_raise(st, z3.Exists([x], z3.And(i_(x), o_(x))), "ValueError")
    ex.split_raise(st, z3.Exists([x], z3.And(io(x), z3.Or(ex.str_empty(pin(x)), ex.starts_digit(pin(x))))), "ValueError")
    unpin = ctx.template_inverse[("", ".", "")]
    img = lambda t: z3.And(t == pin(unpin(nm, t)), io(unpin(nm, t)))
    N = models.define_set(ex, st, lambda t: z3.Or(g.node(t), img(t)), "N")
    hasty = models.define_set(ex, st, lambda t: z3.Or(z3.Select(g.hasty, t), img(t)), "hasty")
    hasout = models.define_set(ex, st, lambda t: z3.Or(z3.Select(g.hasout, t), img(t)), "hasout")
    ty = ctx.fresh("ty", g.ty.sort())
    out = ctx.fresh("out", g.out.sort())
    t_ = ctx.fresh_name("dt")
    for ax in (z3.ForAll([t_], z3.Select(ty, t_) == z3.If(img(t_), z3.If(i_(unpin(nm, t_)), T["bb_input"], T["bb_output"]), z3.Select(g.ty, t_))),
               z3.ForAll([t_], z3.Select(out, t_) == z3.If(img(t_), False, z3.Select(g.out, t_)))):
        ctx.def_ids.add(ax.get_id())
        st.pc.append(ax)
    st.set_g(recv, Graph(N, hasty, ty, hasout, out, g.FI))
    st.set_bb(recv, BBDict(z3.Store(bb.dom, nm, True), z3.Store(bb.val, nm, b.term)))
    return NONE


def s_relabel(ex, st, recv, args, kw, e):
    """Circuit.relabel(mapping) = nx.relabel_nodes(self.graph, mapping, copy=False): assumed model of networkx under
    the obligations emitted at the call (mapping injective on the nodes, keys and values disjoint, new names unused)"""
    models.used("networkx.relabel_nodes(copy=False)")
    st.set_g(recv, models.relabel_graph(ex, st, st.g(recv), args[0], e, inplace=True))
    return NONE


SUMMARIES = {"Circuit.relabel": s_relabel, "Circuit.add_blackbox": s_add_blackbox, "Circuit.copy": s_copy, "Circuit.add_subcircuit": s_add_subcircuit}


def concrete_circuit(ex, st, name, nodes, edges):
    """a new circuit with exactly the given literal nodes [(name, type, output)] and edges [(u, v)], no blackboxes"""
    ctx = ex.ctx
    L = lambda s_: ex.name_term(StrLit(s_))
    g = Graph.empty(ctx)
    N, hasty, ty, hasout, out, FI = g.N, g.hasty, g.ty, g.hasout, g.out, g.FI
    for n, t, o in nodes:
        N = z3.Store(N, L(n), True)
        hasty = z3.Store(hasty, L(n), True)
        ty = z3.Store(ty, L(n), ctx.tval[t])
        hasout = z3.Store(hasout, L(n), True)
        out = z3.Store(out, L(n), bool(o))
    for u, v in edges:
        FI = z3.Store(FI, L(v), z3.Store(z3.Select(FI, L(v)), L(u), True))
    goid = alloc(st, Graph(N, hasty, ty, hasout, out, FI), "graph")
    boid = alloc(st, BBDict.empty(ctx), "bbdict")
    return ObjRef(alloc(st, CircuitRec(goid, boid, StrLit(name)), "circuit"), "Circuit")


def s_half_adder(ex, st, recv, args, kw, e):
    """logic.half_adder(): inputs x, y; c = and(x, y) and s = xor(x, y), both outputs (proved on the body: C13/half_adder)"""
    return concrete_circuit(ex, st, "half_adder", [("x", "input", False), ("y", "input", False), ("c", "and", True), ("s", "xor", True)],
                            [("x", "c"), ("y", "c"), ("x", "s"), ("y", "s")])


SUMMARIES["half_adder"] = s_half_adder
