"""Layer 1: contracts (executable summaries) of the Circuit methods every other function rests on.

Each summary is the *exact* contract of the method for the argument shapes ("variants") listed in VARIANTS:
the raise conditions, the new state and the result as functions of the old state.  pyvc proves, from the
method's real source, that every path of the body is an outcome the summary allows with an identical state
and result (obligation kind `refines`); callers are then verified against the summary only."""
import z3

from pyvc.engine import NONE, NameV, ObjRef, StrLit, TypeV, Unsupported
from pyvc.exec import Coll, PairSet, StrSet
from pyvc import models

F = "circuitgraph/circuit.py"
SOURCE = ["input", "0", "1", "x", "bb_output"]
SINGLE = ["bb_input", "buf", "not"]


def _names(ex, v):
    """normalise the `str or iterable of str` convention"""
    if isinstance(v, (NameV, StrLit)):
        return Coll.explicit([ex.name_term(v)])
    return ex.as_coll(v)


def s_type(ex, st, recv, args, kw, e):
    n = args[0]
    if not isinstance(n, (NameV, StrLit)):
        raise Unsupported("Circuit.type: only the single-node variant is under contract")
    g = st.g(recv)
    t = ex.name_term(n)
    ex.split_raise(st, z3.Not(g.node(t)), "KeyError")
    ex.split_raise(st, z3.Not(z3.Select(g.hasty, t)), "KeyError")
    return TypeV(z3.Select(g.ty, t))


def s_is_output(ex, st, recv, args, kw, e):
    g = st.g(recv)
    t = ex.name_term(args[0])
    ex.split_raise(st, z3.Not(g.node(t)), "KeyError")
    return z3.And(z3.Select(g.hasout, t), z3.Select(g.out, t))


def _union_over(ex, st, recv, args, edge_of, exc="NetworkXError"):
    g = st.g(recv)
    ns = _names(ex, args[0])
    x = ex.ctx.fresh_name("nx")
    ex.split_raise(st, z3.Exists([x], z3.And(ns.mem(x), z3.Not(g.node(x)))), exc)
    def mem(y, g=g, ns=ns):
        n = ex.ctx.fresh_name("un")
        return z3.Exists([n], z3.And(ns.mem(n), edge_of(g, n, y)))
    if ns.elems is not None:
        return Coll(lambda y: z3.Or([edge_of(g, n, y) for n in ns.elems]) if ns.elems else z3.BoolVal(False))
    return Coll(mem)


def s_fanin(ex, st, recv, args, kw, e):
    return _union_over(ex, st, recv, args, lambda g, n, y: g.edge(y, n))


def s_fanout(ex, st, recv, args, kw, e):
    return _union_over(ex, st, recv, args, lambda g, n, y: g.edge(n, y))


def s_nodes(ex, st, recv, args, kw, e):
    g = st.g(recv)
    return Coll(lambda x, g=g: g.node(x))


def s_edges(ex, st, recv, args, kw, e):
    g = st.g(recv)
    return PairSet(lambda u, v, g=g: g.edge(u, v))


def s_contains(ex, st, recv, args, kw, e):
    return st.g(recv).node(ex.name_term(args[0]))


def s_connect(ex, st, recv, args, kw, e):
    ctx = ex.ctx
    us_v, vs_v = args
    g = st.g(recv)
    if ex.choice(st, z3.Or(z3.Not(ex.truthy(us_v)), z3.Not(ex.truthy(vs_v)))):
        return NONE  # `if not us or not vs: return`
    us, vs = _names(ex, us_v), _names(ex, vs_v)
    T = lambda n: z3.Select(g.ty, n)
    tin = lambda t, L: z3.Or([t == ctx.tval[k] for k in L])
    x, y = ctx.fresh_name("cu"), ctx.fresh_name("cv")
    absent = z3.Or(z3.Exists([x], z3.And(us.mem(x), z3.Not(g.node(x)))), z3.Exists([x], z3.And(vs.mem(x), z3.Not(g.node(x)))))
    ex.split_raise(st, absent, "ValueError")
    # type() of an existing node without a type attribute raises KeyError (only reachable on untyped graphs)
    untyped = z3.Or(z3.Exists([x], z3.And(vs.mem(x), z3.Not(z3.Select(g.hasty, x)))), z3.Exists([x], z3.And(us.mem(x), z3.Not(z3.Select(g.hasty, x)))))
    # precondition of the contract (a call site must establish it): the nodes involved are typed
    ex.oblige(st, "Circuit.connect-requires-typed-nodes", z3.Not(untyped), "pre-of-callee", getattr(e, "lineno", None))
    st.pc.append(z3.Not(untyped))
    len_us_gt1 = z3.Not(_at_most_one(ctx, us))
    len_vs_gt1 = z3.Not(_at_most_one(ctx, vs))
    fi_nonempty = lambda v: z3.Exists([x], g.edge(x, v))
    fo_nonempty = lambda u: z3.Exists([y], g.edge(u, y))
    bad_v = z3.Exists([y], z3.And(vs.mem(y), z3.Or(
        tin(T(y), SOURCE),
        z3.And(tin(T(y), SINGLE), z3.Or(len_us_gt1, fi_nonempty(y))))))
    ex.split_raise(st, bad_v, "ValueError")
    bad_u = z3.Exists([x], z3.And(us.mem(x), z3.Or(
        T(x) == ctx.tval["bb_input"],
        z3.And(T(x) == ctx.tval["bb_output"], z3.Or(
            z3.Exists([y], z3.And(vs.mem(y), T(y) != ctx.tval["buf"])),
            len_vs_gt1, fo_nonempty(x))))))
    ex.split_raise(st, bad_u, "ValueError")
    FI = models.define_fi(ex, st, lambda u, v: z3.Or(g.edge(u, v), z3.And(us.mem(u), vs.mem(v))))
    st.set_g(recv, g.copy(FI=FI))
    return NONE


def _at_most_one(ctx, c):
    """len(c) <= 1 for a list (multiset) or set"""
    a, b = ctx.fresh_name("a1"), ctx.fresh_name("a2")
    if c.elems is not None and c.is_list:
        return z3.BoolVal(len(c.elems) <= 1)
    if c.is_list and c.cnt is not None:
        return z3.And(z3.ForAll([a, b], z3.Implies(z3.And(c.mem(a), c.mem(b)), a == b)), z3.ForAll([a], c.count(a) <= 1))
    return z3.ForAll([a, b], z3.Implies(z3.And(c.mem(a), c.mem(b)), a == b))


def s_disconnect(ex, st, recv, args, kw, e):
    g = st.g(recv)
    us, vs = _names(ex, args[0]), _names(ex, args[1])
    FI = models.define_fi(ex, st, lambda u, v: z3.And(g.edge(u, v), z3.Not(z3.And(us.mem(u), vs.mem(v)))))
    st.set_g(recv, g.copy(FI=FI))
    return NONE


def s_remove(ex, st, recv, args, kw, e):
    g = st.g(recv)
    c = _names(ex, args[0])
    N = models.define_set(ex, st, lambda x: z3.And(g.node(x), z3.Not(c.mem(x))), "N")
    FI = models.define_fi(ex, st, lambda u, v: z3.And(g.edge(u, v), z3.Not(c.mem(u)), z3.Not(c.mem(v))))
    hasty = models.define_set(ex, st, lambda x: z3.And(z3.Select(g.hasty, x), z3.Not(c.mem(x))), "hasty")
    hasout = models.define_set(ex, st, lambda x: z3.And(z3.Select(g.hasout, x), z3.Not(c.mem(x))), "hasout")
    st.set_g(recv, g.copy(N=N, FI=FI, hasty=hasty, hasout=hasout))
    return NONE


SUMMARIES = {
    "Circuit.type": s_type,
    "Circuit.is_output": s_is_output,
    "Circuit.fanin": s_fanin,
    "Circuit.fanout": s_fanout,
    "Circuit.nodes": s_nodes,
    "Circuit.edges": s_edges,
    "Circuit.__contains__": s_contains,
    "Circuit.connect": s_connect,
    "Circuit.disconnect": s_disconnect,
    "Circuit.remove": s_remove,
}


# ---------------------------------------------------------------- attribute setters, filters, io sets
ADDABLE = ["buf", "and", "or", "xor", "not", "nand", "nor", "xnor", "0", "1", "x", "input"]


def _all_present(ex, st, g, ns, exc="KeyError"):
    x = ex.ctx.fresh_name("px")
    # variant restriction: with a *list* argument the real loop applies its effect to the elements before the first
    # absent one and then raises; that partial state is only under contract for single-node arguments
    if ns.elems is not None and len(ns.elems) == 1:
        ex.split_raise(st, z3.Not(g.node(ns.elems[0])), exc)
    else:
        absent = z3.Exists([x], z3.And(ns.mem(x), z3.Not(g.node(x))))
        ex.oblige(st, "setter-requires-present-nodes", z3.Not(absent), "pre-of-callee")
        st.pc.append(z3.Not(absent))


def s_set_output(ex, st, recv, args, kw, e):
    g = st.g(recv)
    ns = _names(ex, args[0])
    val = ex.truthy(args[1]) if len(args) > 1 else ex.truthy(kw.get("output", True))
    _all_present(ex, st, g, ns)
    x = ex.ctx.fresh_name("sx")
    out = ex.ctx.fresh("out", g.out.sort())
    ax = z3.ForAll([x], z3.Select(out, x) == z3.If(ns.mem(x), val, z3.Select(g.out, x)))
    ex.ctx.def_ids.add(ax.get_id())
    st.pc.append(ax)
    hasout = models.define_set(ex, st, lambda y: z3.Or(z3.Select(g.hasout, y), ns.mem(y)), "hasout")
    st.set_g(recv, g.copy(out=out, hasout=hasout))
    return NONE


def s_set_type(ex, st, recv, args, kw, e):
    g = st.g(recv)
    t = ex.type_term(args[1])
    ex.split_raise(st, z3.Not(z3.Or([t == ex.ctx.tval[k] for k in ADDABLE])), "ValueError")
    ns = _names(ex, args[0])
    _all_present(ex, st, g, ns)
    x = ex.ctx.fresh_name("sx")
    ty = ex.ctx.fresh("ty", g.ty.sort())
    ax = z3.ForAll([x], z3.Select(ty, x) == z3.If(ns.mem(x), t, z3.Select(g.ty, x)))
    ex.ctx.def_ids.add(ax.get_id())
    st.pc.append(ax)
    hasty = models.define_set(ex, st, lambda y: z3.Or(z3.Select(g.hasty, y), ns.mem(y)), "hasty")
    st.set_g(recv, g.copy(ty=ty, hasty=hasty))
    return NONE


def s_filter_type(ex, st, recv, args, kw, e):
    """requires: every node has a type attribute (else KeyError from the comprehension)"""
    g = st.g(recv)
    types = args[0]
    if isinstance(types, StrLit):
        types = StrSet([types.s])
    if not isinstance(types, StrSet):
        raise Unsupported("filter_type with a symbolic type list")
    bad = [t for t in types.items if t not in ex.ctx.tval or t.startswith("<")]
    if bad:
        ex.split_raise(st, z3.BoolVal(True), "ValueError")
    x = ex.ctx.fresh_name("fx")
    ex.split_raise(st, z3.Exists([x], z3.And(g.node(x), z3.Not(z3.Select(g.hasty, x)))), "KeyError")
    return Coll(lambda y, g=g, ts=types.items: z3.And(g.node(y), z3.Or([z3.Select(g.ty, y) == ex.ctx.tval[t] for t in ts])))


def s_inputs(ex, st, recv, args, kw, e):
    return s_filter_type(ex, st, recv, [StrLit("input")], {}, e)


def s_outputs(ex, st, recv, args, kw, e):
    g = st.g(recv)
    return Coll(lambda y, g=g: z3.And(g.node(y), z3.Select(g.hasout, y), z3.Select(g.out, y)))


def s_io(ex, st, recv, args, kw, e):
    a = s_inputs(ex, st, recv, [], {}, e)
    b = s_outputs(ex, st, recv, [], {}, e)
    return Coll(lambda y: z3.Or(a.mem(y), b.mem(y)))


def s_transitive_fanin(ex, st, recv, args, kw, e):
    """union of networkx.ancestors(graph, n) over n in ns (the meaning of `ancestors` is networkx's assumed contract)"""
    r = ex.reach(st.g(recv))
    return _union_over(ex, st, recv, args, lambda g, n, y: r(y, n))


def s_transitive_fanout(ex, st, recv, args, kw, e):
    r = ex.reach(st.g(recv))
    return _union_over(ex, st, recv, args, lambda g, n, y: r(n, y))


def s_is_cyclic(ex, st, recv, args, kw, e):
    """true exactly when networkx says the graph is not a DAG (what `is a DAG` means is networkx's assumed contract)"""
    return z3.Not(ex.acyclic(st.g(recv)))


def _restricted(ex, st, recv, args, kw, e, closure, base):
    """startpoints(ns) / endpoints(ns): the startpoints (endpoints) among ns and its ancestors (descendants);
    a falsy ns (None, '', empty collection) means the whole circuit"""
    ns = args[0] if args else kw.get("ns", NONE)
    if ns is NONE or isinstance(ns, type(NONE)):
        return base(ex, st, recv, [], {}, e)
    # a str is wrapped into a one-element list by the code, which is truthy even for the empty string
    if isinstance(ns, (NameV, StrLit)) or ex.choice(st, ex.truthy(ns)):
        names = _names(ex, ns)
        clo = closure(ex, st, recv, [ns], {}, e)
        b = base(ex, st, recv, [], {}, e)
        return Coll(lambda y: z3.And(z3.Or(names.mem(y), clo.mem(y)), b.mem(y)), is_list=False)
    return base(ex, st, recv, [], {}, e)


def s_startpoints0(ex, st, recv, args, kw, e):
    if args or kw:
        return _restricted(ex, st, recv, args, kw, e, s_transitive_fanin, s_startpoints0)
    return s_filter_type(ex, st, recv, [StrSet(["input", "bb_output"])], {}, e)


def s_endpoints0(ex, st, recv, args, kw, e):
    if args or kw:
        return _restricted(ex, st, recv, args, kw, e, s_transitive_fanout, s_endpoints0)
    g = st.g(recv)
    x = ex.ctx.fresh_name("fx")
    ex.split_raise(st, z3.Exists([x], z3.And(g.node(x), z3.Not(z3.Select(g.hasty, x)))), "KeyError")
    return Coll(lambda y, g=g: z3.And(g.node(y), z3.Or(z3.And(z3.Select(g.hasout, y), z3.Select(g.out, y)), z3.Select(g.ty, y) == ex.ctx.tval["bb_input"])))


SUMMARIES.update({
    "Circuit.set_output": s_set_output,
    "Circuit.set_type": s_set_type,
    "Circuit.filter_type": s_filter_type,
    "Circuit.inputs": s_inputs,
    "Circuit.outputs": s_outputs,
    "Circuit.io": s_io,
    "Circuit.is_cyclic": s_is_cyclic,
    "Circuit.transitive_fanin": s_transitive_fanin,
    "Circuit.transitive_fanout": s_transitive_fanout,
    "Circuit.startpoints": s_startpoints0,
    "Circuit.endpoints": s_endpoints0,
})


# ---------------------------------------------------------------- uid / add
def s_uid(ex, st, recv, args, kw, e):
    """uid(n) (blocked=None variant).  Relational contract proved on the body (task layer1/Circuit.uid):
         result is not a node, and result == n when n is not a node.
    At call sites the result is the deterministic but otherwise unknown value  uid_of(N, n)  with exactly these facts."""
    if len(args) > 1 or kw:
        raise Unsupported("uid(blocked=...) variant")
    g = st.g(recv)
    n = ex.name_term(args[0])
    f = z3.Function("uid_of", g.N.sort(), ex.ctx.Name, ex.ctx.Name)
    r = f(g.N, n)
    st.pc.append(z3.Not(g.node(r)))
    st.pc.append(z3.Implies(z3.Not(g.node(n)), r == n))
    return NameV(r)


def s_add(ex, st, recv, args, kw, e):
    """add(n, node_type, fanin=None, fanout=None, output=False, uid=False) with add_connected_nodes=False and
    allow_redefinition=False (the two flag combinations C07 names).  All-or-nothing: a rejected call leaves the
    circuit as it was."""
    from pyvc.exec import _Split
    ctx = ex.ctx
    names = ["n", "node_type", "fanin", "fanout", "output", "add_connected_nodes", "allow_redefinition", "uid"]
    a = dict(zip(names, args))
    a.update(kw)
    for flag in ("add_connected_nodes", "allow_redefinition"):
        if a.get(flag, False) is not False:
            raise Unsupported(f"add({flag}=True) variant is not under this contract")
    uid = a.get("uid", False)
    if not isinstance(uid, bool):
        raise Unsupported("symbolic uid flag")
    g0 = st.g(recv)
    n = a["n"]
    if uid:
        n = s_uid(ex, st, recv, [n], {}, e)
    nt = ex.name_term(n)
    if not uid:
        ex.split_raise(st, g0.node(nt), "ValueError")
    def norm(v):
        if v is None or v is NONE or isinstance(v, type(NONE)):
            return Coll.explicit([])
        return _names(ex, v)
    fanin, fanout = norm(a.get("fanin")), norm(a.get("fanout"))
    t = ex.type_term(a["node_type"])
    tin = lambda L: z3.Or([t == ctx.tval[k] for k in L])
    ex.split_raise(st, z3.Not(tin([k for k in ctx.tval if not k.startswith("<")])), "ValueError")
    ex.split_raise(st, z3.And(z3.Not(_at_most_one(ctx, fanin)), tin(["buf", "not"])), "ValueError")
    ex.split_raise(st, z3.And(ex.truthy(fanin), tin(["0", "1", "x", "input"])), "ValueError")
    ex.split_raise(st, z3.Or(ex.str_empty(nt), ex.starts_digit(nt)), "ValueError")
    out = ex.truthy(a.get("output", False))
    g1 = g0.copy(N=z3.Store(g0.N, nt, True), ty=z3.Store(g0.ty, nt, t), hasty=z3.Store(g0.hasty, nt, True),
                 out=z3.Store(g0.out, nt, out), hasout=z3.Store(g0.hasout, nt, True))
    st.set_g(recv, g1)
    try:
        s_connect(ex, st, recv, [NameV(nt), fanout], {}, e)
        s_connect(ex, st, recv, [fanin, NameV(nt)], {}, e)
    except _Split as sp:
        # rollback: the new node (and any edge already made) is removed again
        cur = sp.st.g(recv)
        FI = models.define_fi(ex, sp.st, lambda u, v: z3.And(cur.edge(u, v), u != nt, v != nt))
        sp.st.set_g(recv, cur.copy(N=z3.Store(cur.N, nt, False), FI=FI, hasty=z3.Store(cur.hasty, nt, False), hasout=z3.Store(cur.hasout, nt, False)))
        raise
    return NameV(nt)


SUMMARIES.update({"Circuit.uid": s_uid, "Circuit.add": s_add})
