"""Contracts of sat.py used at call sites (sat.cnf's is PROVED by task C01/cnf under the stated domain; the
pysat Solver contract is ASSUMED: solve() is sound and complete for the clauses added so far, get_model() indexes
every variable that occurs in a clause).

All clause semantics is stated for ONE arbitrary assignment `mu` of the pool objects (models.mu_of):
 * on a path where solver.solve() returned True, mu stands for the returned model  (Sat(mu) is assumed);
 * on a path where it returned False, mu is arbitrary and Sat(mu) is false (no assignment satisfies the clauses)."""
import z3

from pyvc import models, spec
from pyvc.engine import NONE, NameV, ObjRef, TupleV, Unsupported, alloc
from pyvc.exec import B


def s_cnf(ex, st, recv, args, kw, e):
    ctx = ex.ctx
    c = args[0]
    g = st.g(c)
    mu = models.mu_of(ex)
    T = ctx.tval
    for k, f in enumerate(spec.cnf_domain(ctx, g)):
        ex.oblige(st, f"sat.cnf-domain#{k}", f, "pre-of-callee", getattr(e, "lineno", None))
    m = ctx.fresh_name("sm")
    bad = z3.Exists([m], z3.And(g.node(m), z3.Not(z3.Or([z3.Select(g.ty, m) == T[k] for k in spec.ENCODABLE]))))
    ex.split_raise(st, bad, "ValueError")
    S = ctx.fresh("Sat_cnf", B)
    men = ctx.fresh("mentioned", z3.ArraySort(ctx.Obj, B))
    cons = spec.consistent(ctx, ex, g, mu)
    st.pc.append(z3.Implies(S, cons))
    st.pc.append(z3.Implies(z3.And(spec.witness(ctx, mu), cons), S))
    st.pc.append(z3.ForAll([m], z3.Implies(g.node(m), z3.Select(men, ctx.Obj.nm(m)))))
    f = ObjRef(alloc(st, {"kind": "CNF", "sat": S, "men": men}, "cnf"), "CNF")
    v = ObjRef(alloc(st, {"kind": "IDPool"}, "idpool"), "IDPool")
    return TupleV([f, v])


def s_add_assumptions(ex, st, recv, args, kw, e):
    ctx = ex.ctx
    formula, variables, A = args
    mu = models.mu_of(ex)
    rec = dict(st.heap[formula.oid])
    n = ctx.fresh_name("an")
    rec["sat"] = z3.And(rec["sat"], z3.ForAll([n], z3.Implies(A.dom(n), z3.Select(mu, ctx.Obj.nm(n)) == A.val(n))))
    men = ctx.fresh("mentioned", z3.ArraySort(ctx.Obj, B))
    o = ctx.fresh("ao", ctx.Obj)
    ax = z3.ForAll([o], z3.Select(men, o) == z3.Or(z3.Select(rec["men"], o), z3.Exists([n], z3.And(A.dom(n), o == ctx.Obj.nm(n)))))
    ctx.def_ids.add(ax.get_id())
    st.pc.append(ax)
    rec["men"] = men
    st.heap[formula.oid] = rec
    return NONE


SUMMARIES = {"cnf": s_cnf, "add_assumptions": s_add_assumptions}
